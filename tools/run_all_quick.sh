#!/bin/sh
# run every quick check once on /repo's current tree, report exit codes and validate evidence + manifest
cd /verif || exit 2
fail=0
for c in C01 C02 C03 C04 C05 C06 C07 C08 C09 C10 C11 C12 C13 C14 C15 C16 C17 C18 C19 C20; do
  s=$(date +%s)
  out=$(./check $c --tier quick 2>&1); code=$?
  echo "$c exit=$code $(( $(date +%s) - s ))s $(echo "$out" | grep -c '^VIOLATION') viol $(echo "$out" | grep -c '^KNOWN-FINDING') known; $(echo "$out" | grep '^OK\|^HARNESS' | head -1 | cut -c1-160)"
  [ $code -ne 0 ] && fail=1
done
python3-vt - <<'PY'
import json, jsonschema, glob
m = json.load(open('/verif/MANIFEST.json'))
jsonschema.validate(m, json.load(open('/root/.vp/MANIFEST.schema.json')))
es = json.load(open('/root/.vp/EVIDENCE.schema.json'))
for c in m['checks']:
    jsonschema.validate(json.load(open(c['evidence_file'])), es)
print("manifest and", len(m['checks']), "evidence files valid")
PY
exit $fail
