#!/bin/sh
# mutcheck.sh NAME [CHECK...] : apply a mutation in a scratch worktree, run quick checks there, remove it.
name=$1; shift
patch=/verif/mutations/$name.patch
[ -f "$patch" ] || patch=$name
checks="$@"
[ -n "$checks" ] || checks=$(cat /verif/mutations/$name.meta)
wt=/tmp/mutwt-$(basename $name .patch)-$$
git -C /repo worktree add -q --detach "$wt" HEAD || exit 3
git -C "$wt" apply "$patch" || { git -C /repo worktree remove --force "$wt"; exit 3; }
for c in $checks; do
  out=$(cd /verif && JMC_REPO=$wt JMC_EVID_DIR=/verif/work/mut-evidence/$$ ./check $c --tier ${TIER:-quick} 2>&1)
  code=$?
  echo "$(basename $name .patch) $c exit=$code $(echo "$out" | grep -c VIOLATION) violations; $(echo "$out" | grep -A1 VIOLATION | grep -v VIOLATION | head -1) $(echo "$out" | grep HARNESS | head -1 | cut -c1-300)"
done
git -C /repo worktree remove --force "$wt"
rm -rf /verif/work/mut-evidence/$$
