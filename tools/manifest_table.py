S_NOTE = ("Trusted base: the simulated SLURM and interception layer in /verif/jmc (DESIGN 1.2, 1.6); CPython audit events; "
          "sync level L0 (critical sections atomic, justified by the lock discipline checked in C08/C10); small scopes as listed in the evidence file; "
          "virtual constant clock; lock timeouts only at global quiescence.")
CHECKS = {
    "C01": dict(
        text="Exhaustive exploration of the real submit-jobs / run-jobs / try-submit-jobs code over a simulated scheduler: every dependency DAG on <=3 jobs (quick; reduced grid on 4 jobs in thorough) x batching parameter grid under all job-finish orders, and representative graphs under every schedule with <=1 (quick) / <=2 (thorough) preemptions. Oracle at the process boundary (sbatch -> script -> run script -> batch config; Popen of job commands).",
        ref="DESIGN.md 3/C01", note=S_NOTE,
        technique="stateless model checking of the implementation (prefix-replay DFS, preemption bounding, state caching)"),
}
def _s(text, ref):
    return dict(text=text, ref=ref, note=S_NOTE,
                technique="stateless model checking of the implementation (prefix-replay DFS, preemption bounding, state caching)")

CHECKS["C02"] = _s("Same exploration as C01 with the launch oracle: at every job process start every configured blocker has a result row on disk at that instant. Adds exit codes/cancel flags on representative graphs and local mode on all DAGs <=3 (thorough 4).", "DESIGN.md 3/C02")
CHECKS["C03"] = _s("All DAGs on <=3 jobs x exit codes {0,1}^n (thorough also {0,2,255}) x cancel flags x 6 parameter sets (two groups, max-nodes 1, local) under all finish orders; representative graphs with failures under every schedule with <=1/<=2 preemptions incl. the recovery actor. results.json is compared with a 30-line reference evaluator.", "DESIGN.md 3/C03")
CHECKS["C04"] = _s("The C03 space with a per-job oracle: canceled row (status canceled, rc != 0) and zero launches iff the reference evaluator says canceled; other jobs launched exactly once.", "DESIGN.md 3/C04")
CHECKS["C05"] = _s("Representative graphs x max-nodes {1,2,unset} under every schedule with <=1/<=2 preemptions, with a re-armed recovery actor (try-submit-jobs and show-status -n) enabled exactly when nothing is queued/running and the submission is incomplete; plus the C01 input grid. Oracles: recovery round progresses, no ready job left below max-nodes, completion once, results.json before the flag, no sbatch after it.", "DESIGN.md 3/C05")
CHECKS["C06"] = _s("Representative graphs and all 3-job DAGs x max-nodes {1,2} x processes {1,2,unset} x batch sizes under every schedule with <=1/<=2 preemptions; the oracle counts the simulator's ground truth (batches pending/running after each accepted sbatch, live job processes after each launch).", "DESIGN.md 3/C06")
E_NOTE = "Trusted base: the reference models in /verif/jmc/echecks.py and the two seams named in the evidence (scripted command answers below run_command's retry loop, scripted samples below the aggregator); finite domains are enumerated completely, nothing beyond them is claimed."
def _e(text, ref):
    return dict(text=text, ref=ref, note=E_NOTE, technique="bounded-exhaustive enumeration of the input / answer-sequence space through the real code against a reference model")
CHECKS["C18"] = _e("Complete enumeration: 3^9 SLURM option assignments rendered for two groups and compared byte-for-byte with a reference rendering; squeue outputs over all 24 SLURM states x 8 whitespace shapes (0-2 batches) through the real status collector and is_complete; 7 sbatch answers through the real queue; every outcome sequence of a retried command for retries 0-3 in 3 calling modes.", "DESIGN.md 3/C18")
CHECKS["C20"] = _e("Complete enumeration: all multisets of <=3/<=4 events spread over 1-3 per-process files written by the real event logger and consolidated twice; every sample sequence of length <=4 over {0,1,2,5} through the real aggregator; every result set over 5 classes for <=4 jobs through the real completion code and ResultsSummary.", "DESIGN.md 3/C20")
NOT_APPLICABLE = {}
