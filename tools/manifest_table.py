S_NOTE = ("Trusted base: the simulated SLURM and interception layer in /verif/jmc (DESIGN 1.2, 1.6); CPython audit events; "
          "sync level L0 (critical sections atomic, justified by the lock discipline checked in C08/C10); small scopes as listed in the evidence file; "
          "virtual constant clock; lock timeouts only at global quiescence.")
CHECKS = {
    "C01": dict(
        text="Exhaustive exploration of the real submit-jobs / run-jobs / try-submit-jobs code over a simulated scheduler: every dependency DAG on <=3 jobs (quick; reduced grid on 4 jobs in thorough) x batching parameter grid under all job-finish orders, and representative graphs under every schedule with <=1 (quick) / <=2 (thorough) preemptions. Oracle at the process boundary (sbatch -> script -> run script -> batch config; Popen of job commands).",
        ref="DESIGN.md 3/C01", note=S_NOTE,
        technique="stateless model checking of the implementation (prefix-replay DFS, preemption bounding, state caching)"),
}
NOT_APPLICABLE = {}
