#!/venv/bin/python
"""Run the repository's pinned suite (guard off: this harness has no source hooks) and compare with
/root/.vp/BASELINE.json: every stable_pass test must still pass."""
import json
import os
import subprocess
import sys
import tempfile
import xml.etree.ElementTree as ET

base = json.load(open("/root/.vp/BASELINE.json"))
out = tempfile.mkdtemp(prefix="jade-baseline-", dir=os.environ.get("TMPDIR", "/var/tmp"))
xml = os.path.join(out, "junit.xml")
env = dict(os.environ)
env.pop("JADE_VERIF", None)
cmd = ["/venv/bin/python", "-m", "pytest", "-ra", "-q", "-p", "no:cacheprovider", "--timeout=900",
       "--continue-on-collection-errors", f"--junitxml={xml}"]
subprocess.run(cmd, cwd="/repo", env=env, stdout=subprocess.DEVNULL, stderr=subprocess.DEVNULL)
passed = set()
for tc in ET.parse(xml).getroot().iter("testcase"):
    if not any(c.tag in ("failure", "error", "skipped") for c in tc):
        passed.add(f"{tc.get('classname')}::{tc.get('name')}")
import shutil
shutil.rmtree(out, ignore_errors=True)
missing = [t for t in base["stable_pass"] if t not in passed]
print(f"baseline: {len(base['stable_pass']) - len(missing)}/{len(base['stable_pass'])} stable tests pass")
for m in missing:
    print("  NOT PASSING:", m)
sys.exit(1 if missing else 0)
