#!/venv/bin/python
"""Regenerate the 'seeded changes' table of DESIGN.md (between the markers) from /verif/seeded/*/meta.json
and /verif/mutations/*.meta."""
import glob, json, os, re
rows = []
for d in sorted(glob.glob("/verif/seeded/*/")):
    try:
        m = json.load(open(d + "meta.json"))
    except Exception:
        continue
    sid = os.path.basename(d.rstrip("/"))
    files = ", ".join(os.path.basename(f) for f in (m.get("files") or [])[:2])
    what = (m.get("breaks") or "").replace("\n", " ").replace("|", "/")
    what = re.sub(r"\s+", " ", what)[:170]
    needs = re.sub(r"\s+", " ", (m.get("needs") or "").replace("|", "/"))[:120]
    det = ", ".join(m.get("detected_by") or []) or "**not detected**"
    conf = "yes" if m.get("confirmed") else "NO"
    rows.append(f"| {sid} | {files} | {what} | {needs} | {conf} | {det} |")
ndet = sum(1 for r in rows if "not detected" not in r)
out = [f"{len(rows)} seeded changes from independent sub-agents (each given only one property's text and a scratch worktree); "
       f"{ndet} are reported by the owning property's quick check (or the listed check), {len(rows) - ndet} are not. "
       "`confirmed` = patch applies to /repo HEAD, the 125 pinned tests still pass with it, the agent's demonstration fails with it and passes without it (all re-run by `tools/seedcheck.py`).",
       "", "| id | files | change | needs | confirmed | reported by |", "|---|---|---|---|---|---|"] + rows
text = "\n".join(out)
p = "/verif/DESIGN.md"
s = open(p).read()
a, b = "<!-- SEEDED-TABLE-BEGIN -->", "<!-- SEEDED-TABLE-END -->"
if a in s:
    s = s[:s.index(a) + len(a)] + "\n" + text + "\n" + s[s.index(b):]
else:
    s += f"\n### 7.5 Seeded changes and which checks report them\n\n{a}\n{text}\n{b}\n"
open(p, "w").write(s)
print(len(rows), "rows;", ndet, "detected")
