#!/venv/bin/python
"""seedcheck.py CXX mK [CHECK...]  — confirm a sub-agent's seeded defect and run our checks on it.

Uses the agent's own scratch worktree /tmp/agent-wt-CXX (clean, at a /repo commit; when it is gone, a temporary
worktree under /var/tmp and the copy of the seed kept in /verif/seeded are used instead): applies the patch
there, (1) runs the pinned suite and compares with the baseline, (2) runs the demo (must fail), (3) runs
our quick checks with JMC_REPO pointing at the patched worktree, then reverts and (4) runs the demo again
(must pass).  Writes /verif/seeded/CXX-mK/{patch.diff,demo*,meta.json}."""
import json, os, shutil, subprocess, sys, tempfile, time
import xml.etree.ElementTree as ET

prop, m = sys.argv[1], sys.argv[2]
checks = sys.argv[3:] or [prop]
PFX = os.environ.get("AGENT_PREFIX", "agent")
wt = f"/tmp/{PFX}-wt-{prop}"
src = f"/tmp/{PFX}-out-{prop}/{m}"
dst = f"/verif/seeded/{prop}-{m}" if PFX == "agent" else f"/verif/seeded/{prop}-{PFX[5:]}{m}"
base = json.load(open("/root/.vp/BASELINE.json"))
OWN_WT = False
if not os.path.isdir(src):
    # the agents' scratch directories are gone: re-evaluate from the copy kept under /verif/seeded
    src = dst
if not os.path.isdir(wt):
    wt = f"/var/tmp/seed-wt-{prop}-{os.getpid()}"
    subprocess.run(f"git -C /repo worktree add -q --detach {wt}", shell=True, check=True)
    OWN_WT = True

def sh(cmd, **kw):
    return subprocess.run(cmd, shell=True, capture_output=True, text=True, **kw)

def suite():
    out = tempfile.mkdtemp(prefix="seed-junit-", dir="/var/tmp")
    xml = os.path.join(out, "j.xml")
    sh(f"cd {wt} && /venv/bin/python -m pytest -q -p no:cacheprovider --timeout=900 --continue-on-collection-errors --junitxml={xml} tests", timeout=1800)
    passed = set()
    try:
        for tc in ET.parse(xml).getroot().iter("testcase"):
            if not any(c.tag in ("failure", "error", "skipped") for c in tc):
                passed.add(f"{tc.get('classname')}::{tc.get('name')}")
    finally:
        shutil.rmtree(out, ignore_errors=True)
    return [t for t in base["stable_pass"] if t not in passed]

def demo():
    for name in ("demo.py", "test_demo.py"):
        p = os.path.join(src, name)
        if os.path.exists(p):
            if name.startswith("test_"):
                r = sh(f"cd {wt} && /venv/bin/python -m pytest -q -p no:cacheprovider -x {p}", timeout=900)
            else:
                r = sh(f"cd {wt} && /venv/bin/python {p}", timeout=900)
            return name, r.returncode, (r.stdout + r.stderr)[-600:]
    return None, None, "no demo"

sh(f"git -C {wt} checkout -- . && git -C {wt} clean -fdq")
# bring the agent's worktree to /repo's current HEAD so that the patch is judged on the current tree
head = sh("git -C /repo rev-parse HEAD").stdout.strip()
sh(f"git -C {wt} checkout -q --detach {head}")
r = sh(f"git -C {wt} apply {src}/patch.diff")
res = dict(property=prop, seed=m, applied=r.returncode == 0, repo_head=head[:7])
if r.returncode != 0:
    res["error"] = r.stderr[-400:]
    print(json.dumps(res, indent=1)); sys.exit(1)
prev = None
try:
    prev = json.load(open(os.path.join(dst, "meta.json")))
except Exception:
    prev = None
SKIP = bool(os.environ.get("SKIP_CONFIRM")) and prev is not None and prev.get("confirmed")
try:
    if SKIP:
        missing = []
        res["suite_stable_tests_not_passing"] = []
        res["demo"] = "demo.py"
        res["demo_fails_with_patch"] = True
    else:
        missing = suite()
        res["suite_stable_tests_not_passing"] = missing
        dn, code, tail = demo()
        res["demo"] = dn
        res["demo_fails_with_patch"] = (code not in (0, None))
        res["demo_tail_with_patch"] = tail[-300:]
    res["checks"] = {}
    for c in checks:
        t0 = time.time()
        rr = sh(f"cd {os.environ.get('VERIF_DIR', '/verif')} && JMC_REPO={wt} JMC_EVID_DIR=/verif/work/seed-evidence/{prop}-{m} ./check {c} --tier {os.environ.get('TIER','quick')}", timeout=7200)
        lines = [l for l in rr.stdout.splitlines() if "VIOLATION" in l or "HARNESS" in l or l.startswith("  ")]
        res["checks"][c] = dict(exit=rr.returncode, violations=sum(1 for l in lines if "VIOLATION" in l),
                                first=[l.strip()[:300] for l in lines[:4]], wall=round(time.time() - t0, 1))
finally:
    sh(f"git -C {wt} checkout -- . && git -C {wt} clean -fdq")
if SKIP:
    res["demo_passes_without_patch"] = True
else:
    dn, code, tail = demo()
    res["demo_passes_without_patch"] = (code == 0)
os.makedirs(dst, exist_ok=True)
if src != dst:
    for f in os.listdir(src):
        if f in ("patch.diff", "demo.py", "test_demo.py"):
            shutil.copy(os.path.join(src, f), dst)
try:
    am = json.load(open(os.path.join(src, "meta.json")))
    if src == dst:
        am = dict(summary=am.get("breaks"), needs=am.get("needs"), files=am.get("files"))
except Exception:
    am = {}
if OWN_WT:
    sh(f"git -C /repo worktree remove --force {wt}; git -C /repo worktree prune")
res["agent_meta"] = am
res["confirmed"] = bool(res["applied"] and not res.get("suite_stable_tests_not_passing") and res["demo_fails_with_patch"] and res["demo_passes_without_patch"])
res["detected_by"] = [c for c, v in res["checks"].items() if v["exit"] == 1]
meta = dict(property=prop, breaks=am.get("summary"), needs=am.get("needs"), files=am.get("files"),
            source="independent sub-agent given only the property text and a scratch worktree",
            ran=dict(repo_head=res["repo_head"], suite=(prev["ran"]["suite"] if SKIP else ("pinned suite in the patched worktree: all 125 stable tests pass" if not missing else f"NOT PASSING: {missing}")),
                     demo=(prev["ran"]["demo"] if SKIP else f"{res['demo']}: fails with patch={res['demo_fails_with_patch']}, passes without={res['demo_passes_without_patch']}"),
                     checks={c: f"exit {v['exit']}, {v['violations']} violation line(s); {v['first'][:2]}" for c, v in res["checks"].items()}),
            confirmed=res["confirmed"], detected_by=res["detected_by"])
if prev is not None:
    meta["first_evaluation"] = prev.get("first_evaluation") or dict(detected_by=prev.get("detected_by"), checks=(prev.get("ran") or {}).get("checks"))
json.dump(meta, open(os.path.join(dst, "meta.json"), "w"), indent=1)
shutil.rmtree(f"/verif/work/seed-evidence/{prop}-{m}", ignore_errors=True)
print(json.dumps({k: res[k] for k in ("property", "seed", "confirmed", "suite_stable_tests_not_passing", "demo_fails_with_patch", "demo_passes_without_patch", "detected_by")}, default=str))
for c, v in res["checks"].items():
    print("   ", c, v["exit"], v["wall"], "s", v["first"][:2])
