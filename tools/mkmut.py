#!/venv/bin/python
"""mkmut.py NAME PROP FILE <<< 'OLD\n====\nNEW'  : create /verif/mutations/NAME.patch (repo left clean)."""
import subprocess, sys
name, prop, path = sys.argv[1:4]
old, new = sys.stdin.read().split("\n====\n")
new = new.rstrip("\n")
old = old.rstrip("\n")
p = "/repo/" + path
s = open(p).read()
assert s.count(old) == 1, f"old text occurs {s.count(old)} times"
open(p, "w").write(s.replace(old, new))
d = subprocess.run(["git", "-C", "/repo", "diff"], capture_output=True, text=True).stdout
subprocess.run(["git", "-C", "/repo", "checkout", "--", "."], check=True)
open(f"/verif/mutations/{name}.patch", "w").write(d)
open(f"/verif/mutations/{name}.meta", "w").write(prop + "\n")
print("wrote", name, len(d.splitlines()), "lines")
