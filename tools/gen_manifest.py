#!/venv/bin/python
"""Regenerate /verif/MANIFEST.json from the table below (kept next to the code that implements it)."""
import json, os, sys
V = os.path.dirname(os.path.dirname(os.path.abspath(__file__)))
sys.path.insert(0, V)
from tools.manifest_table import CHECKS, NOT_APPLICABLE

props = [json.loads(l)["id"] for l in open(os.path.join(V, "properties.jsonl"))]
checks = []
for pid in props:
    c = CHECKS.get(pid)
    if not c:
        continue
    checks.append({
        "property_id": pid,
        "quick_cmd": f"./check {pid} --tier quick",
        "thorough_cmd": f"./check {pid} --tier thorough",
        "evidence_file": f"/verif/evidence/{pid}.json",
        "replay_cmd_template": f"./check {pid} --replay {{path}}",
        "engine": "jmc",
        "level_claimed": {"category": c.get("category", "model_checking"), "text": c["text"], "design_ref": c["ref"]},
        "level_note": c["note"],
        "technique": c["technique"],
    })
na = [{"property_id": p, "reason": NOT_APPLICABLE.get(p, "check not built yet (planned in DESIGN.md section 3); nothing is claimed for it")}
      for p in props if p not in CHECKS]
m = {
    "version": 1,
    "setup_cmd": "./check setup",
    "hooks": {
        "guard": "JADE_VERIF",
        "enable": "none needed: all interception is done at run time from /verif (sys.addaudithook, module rebinding); no source hooks exist in /repo, the variable is unused",
        "baseline_off_cmd": "/verif/tools/baseline_check.py",
        "source_commits": [],
        "add_only": True,
    },
    "engines": [{
        "name": "jmc",
        "path": "/verif/jmc",
        "serves_properties": [c["property_id"] for c in checks],
        "kind_free_text": "stateless/explicit-state model checker written for this task: runs the real JADE CLI entry points as virtual processes (threads with a baton) over a simulated SLURM, DFS by prefix replay with preemption/fault budgets and state caching; plus bounded-exhaustive enumeration of input spaces against reference models",
    }],
    "checks": checks,
    "not_applicable": na,
    "notes": "See DESIGN.md. Exit 0 = held on everything explored, 1 = VIOLATION line(s), 2 = HARNESS-ERROR (the checker itself misbehaved; never a verdict). Known findings: /verif/known_findings.json.",
}
json.dump(m, open(os.path.join(V, "MANIFEST.json"), "w"), indent=1)
print("wrote MANIFEST.json with", len(checks), "checks;", len(na), "not claimed")
