"""Interception layer: everything JADE does to the outside world from a vproc thread goes through
here.  Installed once per interpreter by jmc.boot.  Nothing in /repo is edited.
"""

import builtins
import errno
import io
import os
import socket
import stat as _stat
import subprocess
import sys
import time
import hashlib
from collections.abc import MutableMapping

from .engine import tls, cur_vproc, in_raw, raw, Op, Abort, HarnessError

_real_stat = os.stat
_real_lstat = os.lstat
_real_sleep = time.sleep
_real_time = time.time
_real_gethostname = socket.gethostname
_real_environ = os.environ
_real_popen = subprocess.Popen
_real_open = builtins.open
_real_io_open = io.open

WRITE_FLAGS = os.O_WRONLY | os.O_RDWR | os.O_CREAT | os.O_TRUNC | os.O_APPEND

# --------------------------------------------------------------------------- path classes
CLUSTER_PROTECTED = {
    "cluster_config.json",
    "job_status.json",
    "config_version.txt",
    "job_status_version.txt",
    "cluster_config.json.bk",
    "job_status.json.bk",
}
CLUSTER_LOCK = "cluster_config.json.lock"


def protecting_lock(rel):
    """Lock file (relative) that protects `rel`, or None if unprotected."""
    if rel in CLUSTER_PROTECTED:
        return CLUSTER_LOCK
    if rel == "processed_results.csv":
        return "processed_results.csv.lock"
    if rel.startswith("results/results_batch_") and rel.endswith(".csv"):
        return rel + ".lock"
    return None


def _is_private(rel):
    """Paths private to one process or ordered by a scheduled happens-before edge (DESIGN 1.3)."""
    if rel.startswith(("job-outputs", "job-stdio", "stats", "events")):
        return True
    base = rel.rsplit("/", 1)[-1]
    if base.endswith(".log") or base.endswith(".patch"):
        return True
    if base.startswith(("config_batch_", "run_batch_")) or "_batch_" in base and base.endswith(".sh"):
        return True
    if rel in ("config.json", "submitter_groups.json", "results.txt", "errors.txt",
               "stats.txt", "stats_summary.json", "results", "diff.patch"):
        return True
    return False


def sync_class(world, vp, rel, opkind):
    """Is this file access a sync point at the world's level?  Returns a reason or None."""
    level = world.level
    if level <= 0:
        return None
    if level >= 3:
        # mode F: every access to the shared directory except stat of the fixed layout
        if opkind == "stat" and not (rel.endswith((".lock", ".bk", ".csv")) or rel == "submitter.lock"):
            return None
        if opkind == "mkdir":
            return None
        lock = protecting_lock(rel)
        if lock is not None and (world.rootp + lock) not in vp.holding:
            world.lock_notes.add(f"{opkind} {rel} without {lock} by {vp.name}")
        return "all"
    lock = protecting_lock(rel)
    if lock is not None:
        held = (world.rootp + lock) in vp.holding
        if not held:
            world.lock_notes.add(f"{opkind} {rel} without {lock} by {vp.name}")
            return "unlocked"
        return "locked" if level >= 2 else None
    if rel.endswith(".lock") and rel != "submitter.lock":
        # lock files as seen by stat/listdir/remove
        return "lockfile" if opkind in ("stat", "remove", "open-w", "open-r") else None
    if _is_private(rel):
        if opkind == "stat" or level < 3:
            return None
        return None
    if rel == "" or rel == "results":
        # directory listings of the top level / results dir
        return "listing" if opkind in ("listdir",) else None
    if opkind == "stat":
        # only paths another process may create or delete concurrently
        if rel in ("submitter.lock", "results.json") or rel.endswith(".bk"):
            return "stat"
        return None
    if opkind in ("mkdir",):
        return None
    if rel in ("submitter.lock", "results.json"):
        return "unprotected"
    world.unknown_paths.add(rel)
    return "unknown"


# --------------------------------------------------------------------------- audit hook
def _norm(p):
    if isinstance(p, int):
        return None
    try:
        p = os.fspath(p)
    except TypeError:
        return None
    if isinstance(p, bytes):
        p = p.decode("utf-8", "replace")
    return p


def _content_digest(path):
    try:
        fd = os.open(path, os.O_RDONLY)
    except OSError as e:
        return "E%d" % (e.errno or 0)
    try:
        chunks = []
        while True:
            b = os.read(fd, 1 << 16)
            if not b:
                break
            chunks.append(b)
    except OSError as e:  # a directory
        return "E%d" % (e.errno or 0)
    finally:
        os.close(fd)
    from .engine import _canon_content

    return hashlib.blake2b(_canon_content(path, b"".join(chunks)), digest_size=8).hexdigest()


def _file_sync(vp, w, rel, opkind, extra_alts=None):
    """Possibly park at a file-level sync point.  Returns the chosen alternative ('' normally)."""
    why = sync_class(w, vp, rel, opkind)
    if why is None:
        return ""
    alt = vp.sync(Op("file", f"{opkind} {rel}", alts=None))
    return alt


def _inject(alt, path):
    if alt == "edquot":
        raise OSError(errno.EDQUOT, "Disk quota exceeded", path)
    if alt == "eio":
        raise OSError(errno.EIO, "Input/output error", path)


def _audit(event, args):
    vp = getattr(tls, "vproc", None)
    if vp is None or getattr(tls, "inhook", 0):
        return
    if event == "open":
        p = _norm(args[0])
        if p is None:
            return
        w = vp.world
        rel = w.rel(p)
        if rel is None:
            return
        flags = args[2] if len(args) > 2 and isinstance(args[2], int) else 0
        mode = args[1]
        writing = bool(flags & WRITE_FLAGS) or (isinstance(mode, str) and any(c in mode for c in "wax+"))
        if w.closed or vp.killed:
            raise Abort()
        if rel.startswith(("job-stdio/", "job-outputs/")):
            return
        tls.inhook = 1
        try:
            if writing:
                w.mark_dirty(rel)
            else:
                pass
        finally:
            tls.inhook = 0
        alt = _file_sync(vp, w, rel, "open-w" if writing else "open-r")
        _inject(alt, p)
        if not writing:
            tls.inhook = 1
            try:
                vp.observe(f"r {rel} {_content_digest(p)}")
            finally:
                tls.inhook = 0
        else:
            w.emit("fwrite", vp=vp, rel=rel, mode=mode, flags=flags)
        return
    if event in ("os.remove", "os.rmdir", "os.mkdir", "os.chmod", "os.utime", "os.truncate"):
        p = _norm(args[0])
        if p is None:
            return
        w = vp.world
        rel = w.rel(p)
        if rel is None:
            return
        if w.closed or vp.killed:
            raise Abort()
        if rel.startswith(("job-stdio/", "job-outputs/")):
            return
        kind = event[3:]
        if kind == "mkdir":
            # parent listing changes
            w.mark_dirty(rel)
        else:
            w.mark_dirty(rel)
        if kind in ("remove", "rmdir", "truncate"):
            alt = _file_sync(vp, w, rel, "remove")
            _inject(alt, p)
            w.emit("fremove", vp=vp, rel=rel)
        return
    if event == "os.rename":
        src, dst = _norm(args[0]), _norm(args[1])
        if src is None or dst is None:
            return
        w = vp.world
        rs, rd = w.rel(src), w.rel(dst)
        if rs is None and rd is None:
            return
        if w.closed or vp.killed:
            raise Abort()
        if rs is not None:
            w.mark_dirty(rs)
        if rd is not None:
            w.mark_dirty(rd)
        alt = _file_sync(vp, w, rs if rs is not None else rd, "rename")
        _inject(alt, src)
        w.emit("frename", vp=vp, src=rs, dst=rd)
        return
    if event in ("os.listdir", "os.scandir"):
        p = _norm(args[0]) if args and args[0] is not None else None
        if p is None:
            return
        w = vp.world
        rel = w.rel(p)
        if rel is None:
            return
        if w.closed or vp.killed:
            raise Abort()
        if rel.startswith(("job-stdio", "job-outputs")):
            return
        _file_sync(vp, w, rel, "listdir")
        tls.inhook = 1
        try:
            try:
                names = sorted(os.listdir(p))
            except OSError as e:
                names = ["E%d" % (e.errno or 0)]
            vp.observe(f"ls {rel} {','.join(names)}")
        finally:
            tls.inhook = 0
        return
    if event == "shutil.rmtree":
        p = _norm(args[0])
        if p is None:
            return
        w = vp.world
        rel = w.rel(p)
        if rel is None:
            return
        if w.closed or vp.killed:
            raise Abort()
        w.mark_dirty(rel)
        return
    if event in ("subprocess.Popen", "os.system", "os.posix_spawn", "os.fork", "os.exec",
                 "os.forkpty", "os.spawn"):
        raise HarnessError(f"escape: {event} {args!r} from vproc {vp.name}")


# --------------------------------------------------------------------------- stat
def _stat_common(real, path, a, kw):
    vp = getattr(tls, "vproc", None)
    if vp is None or getattr(tls, "inhook", 0):
        return real(path, *a, **kw)
    p = _norm(path)
    if p is None or kw.get("dir_fd") is not None:
        return real(path, *a, **kw)
    w = vp.world
    rel = w.rel(p)
    if rel is None or rel.startswith(("job-stdio", "job-outputs")):
        return real(path, *a, **kw)
    if w.closed or vp.killed:
        raise Abort()
    _file_sync(vp, w, rel, "stat")
    try:
        r = real(path, *a, **kw)
    except OSError as e:
        vp.observe(f"st {rel} E{e.errno}")
        raise
    vp.observe(f"st {rel} {_stat.S_IFMT(r.st_mode)}")
    return r


def _v_stat(path, *a, **kw):
    return _stat_common(_real_stat, path, a, kw)


def _v_lstat(path, *a, **kw):
    return _stat_common(_real_lstat, path, a, kw)


# --------------------------------------------------------------------------- time
def _v_time():
    vp = getattr(tls, "vproc", None)
    if vp is None:
        return _real_time()
    return vp.world.clock


def _v_sleep(sec):
    vp = getattr(tls, "vproc", None)
    if vp is None:
        return _real_sleep(sec)
    if in_raw():
        return
    w = vp.world
    if w.closed or vp.killed:
        raise Abort()
    # which sleep is this?
    f = sys._getframe(1)
    site = f.f_code.co_name
    fname = f.f_code.co_filename
    in_wait = site == "wait" and fname.endswith("job_queue.py")
    if in_wait and vp.jobs:
        vp.idle_polls = 0
        names = sorted(vp.jobs)
        alts = w.sim.finish_alternatives(names)
        k = int(w.scen.get("stutter", 0))
        if vp.data.get("stutters", 0) < k:
            # "nothing finishes at this poll" (bounded per process: the queue is processed again while
            # the same jobs are still running)
            alts = list(alts) + ["none"]
        alt = vp.sync(Op("poll", ",".join(names), alts=alts))
        if alt == "none":
            vp.data["stutters"] = vp.data.get("stutters", 0) + 1
            vp.observe("stutter")
            return
        fin = alt[4:].split("+") if alt.startswith("fin:") else []
        for n in fin:
            vp.jobs[n].finish()
        return
    if in_wait:
        vp.idle_polls += 1
        if vp.idle_polls >= 3:
            # nothing running, nothing can change for this queue: the node hangs until walltime
            w.emit("node_hang", vp=vp)
            vp.sync(Op("walltime", ""))
            vp.die("walltime")
        return
    # any other sleep (retry delays, promote loops, the 15 s pause): time passes, i.e. the others
    # may move first.  The sleeper is enabled again once somebody else has taken a step or nobody
    # else can (World.options treats kind "sleep" specially), so waiting in a retry loop never
    # costs a preemption and a polling loop cannot starve the process it is waiting for.
    if sec >= 1:
        vp.sync(Op("sleep", site))
    return


# --------------------------------------------------------------------------- environment
class EnvProxy(MutableMapping):
    """os.environ replacement: per-vproc environment inside vproc threads."""

    def _m(self):
        vp = getattr(tls, "vproc", None)
        return _real_environ if vp is None else vp.env_stack[-1]

    def __getitem__(self, k):
        return self._m()[k]

    def __setitem__(self, k, v):
        self._m()[k] = v

    def __delitem__(self, k):
        del self._m()[k]

    def __iter__(self):
        return iter(self._m())

    def __len__(self):
        return len(self._m())

    def __contains__(self, k):
        return k in self._m()

    def copy(self):
        return dict(self._m())

    def get(self, k, d=None):
        return self._m().get(k, d)

    def pop(self, k, *d):
        return self._m().pop(k, *d)

    def setdefault(self, k, d=None):
        return self._m().setdefault(k, d)

    def __repr__(self):
        return "EnvProxy(%r)" % (dict(self._m()),)


def _v_gethostname():
    vp = getattr(tls, "vproc", None)
    if vp is None:
        return _real_gethostname()
    return vp.host


class WriteProxy:
    """Buffered-writer model for shared text files opened for writing at level >= 2 (DESIGN 1.2):
    the real open has happened (creation/truncation is visible), the data reaches the file at
    close(), which is a sync point ("commit")."""

    def __init__(self, f, vp, rel, path):
        self._f = f
        self._vp = vp
        self._rel = rel
        self._path = path
        self._buf = []
        self._n = 0
        self.closed = False
        self.name = getattr(f, "name", path)
        self.mode = getattr(f, "mode", "w")
        try:
            self._pos0 = f.tell()
        except OSError:
            self._pos0 = 0

    def write(self, s):
        self._buf.append(s)
        self._n += len(s)
        return len(s)

    def writelines(self, lines):
        for l in lines:
            self.write(l)

    def tell(self):
        return self._pos0 + self._n

    def flush(self):
        pass

    def writable(self):
        return True

    def readable(self):
        return False

    def fileno(self):
        return self._f.fileno()

    def close(self):
        if self.closed:
            return
        self.closed = True
        vp = self._vp
        w = vp.world
        try:
            if self._buf and not (w.closed or vp.killed):
                alt = vp.sync(Op("file", f"commit {self._rel}"))
                _inject(alt, self._path)
                tls.inhook = getattr(tls, "inhook", 0) + 1
                try:
                    self._f.write("".join(self._buf))
                    self._f.flush()
                    w.mark_dirty(self._rel)
                finally:
                    tls.inhook -= 1
                w.emit("fcommit", vp=vp, rel=self._rel)
        finally:
            self._f.close()

    def __enter__(self):
        return self

    def __exit__(self, *a):
        self.close()
        return False

    def __del__(self):
        try:
            self._f.close()
        except Exception:  # noqa
            pass


def _v_open(file, mode="r", *a, **kw):
    f = _real_open(file, mode, *a, **kw)
    vp = getattr(tls, "vproc", None)
    if vp is None or getattr(tls, "inhook", 0) or vp.world.level < 2:
        return f
    if not isinstance(mode, str) or "b" in mode or not any(c in mode for c in "wax"):
        return f
    p = _norm(file)
    if p is None:
        return f
    rel = vp.world.rel(p)
    if rel is None or rel.startswith(("job-stdio/", "job-outputs/")) or rel.endswith(".log"):
        return f
    return WriteProxy(f, vp, rel, p)


_installed = False


def install():
    global _installed
    if _installed:
        return
    _installed = True
    sys.addaudithook(_audit)
    os.stat = _v_stat
    os.lstat = _v_lstat
    time.sleep = _v_sleep
    time.time = _v_time
    socket.gethostname = _v_gethostname
    os.environ = EnvProxy()
    builtins.open = _v_open
    io.open = _v_open
    from . import sim

    subprocess.Popen = sim.PopenDispatch
    import multiprocessing

    _real_cpu = multiprocessing.cpu_count

    def _v_cpu_count():
        vp = getattr(tls, "vproc", None)
        if vp is None:
            return _real_cpu()
        return int(vp.world.scen.get("cpus", 2))

    multiprocessing.cpu_count = _v_cpu_count


def rebind_jade():
    """Rebind by-identity copies inside jade.* namespaces (from X import Y)."""
    import filelock
    import logging
    from . import vlock

    import jade.loggers as jl

    real_setup_logging = jl.setup_logging
    real_setup_event_logging = jl.setup_event_logging

    def setup_logging(name, filename, *a, **k):
        return logging.getLogger(name)

    def setup_event_logging(filename, *a, **k):
        return logging.getLogger("_jade_event")

    table = {
        id(filelock.SoftFileLock): vlock.VSoftFileLock,
        id(_real_time): _v_time,
        id(_real_sleep): _v_sleep,
        id(_real_gethostname): _v_gethostname,
        id(_real_popen): subprocess.Popen,
        id(real_setup_logging): setup_logging,
        id(real_setup_event_logging): setup_event_logging,
        id(_real_environ): os.environ,
        id(_real_stat): _v_stat,
    }
    n = 0
    for name, mod in list(sys.modules.items()):
        if not (name == "jade" or name.startswith("jade.")) or mod is None:
            continue
        d = vars(mod)
        for k, v in list(d.items()):
            r = table.get(id(v))
            if r is not None and v is not r:
                # keep jade.loggers' own definitions callable for mode E (C20 uses real logging)
                if mod is jl and k in ("setup_logging", "setup_event_logging"):
                    continue
                d[k] = r
                n += 1
    return n
