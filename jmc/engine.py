"""Core of jmc: virtual processes (threads with a baton) over the real JADE code, a scheduler that
owns every choice, and a depth-first explorer by prefix replay with deviation budgets and state
caching.  See DESIGN.md section 1.
"""

import hashlib
import os
import shutil
import sys
import threading
import time as _time
import traceback

tls = threading.local()

WATCHDOG_S = float(os.environ.get("JMC_WATCHDOG", "60"))
HORIZON = int(os.environ.get("JMC_HORIZON", "3000"))

READY, DONE, DEAD, CRASHED, ABORTED = "ready", "done", "dead", "crashed", "aborted"


class Abort(BaseException):
    """Unwinds a vproc thread (world closed or vproc killed).  Not an Exception on purpose."""


class HarnessError(Exception):
    """The checker itself misbehaved (escape, nondeterminism, watchdog).  Never a violation."""


def cur_vproc():
    return getattr(tls, "vproc", None)


class raw:
    """Context manager: operations of the harness itself inside a vproc thread (not JADE's)."""

    def __enter__(self):
        tls.inhook = getattr(tls, "inhook", 0) + 1

    def __exit__(self, *a):
        tls.inhook -= 1


def in_raw():
    return getattr(tls, "inhook", 0) > 0


class Op:
    """A pending operation of a vproc at a sync point."""

    __slots__ = ("kind", "detail", "alts", "guard", "data")

    def __init__(self, kind, detail="", alts=None, guard=None, data=None):
        self.kind = kind
        self.detail = detail
        self.alts = alts  # None -> [""], list of labels, or callable(world)->list
        self.guard = guard  # None or callable(world)->bool
        self.data = data

    def label(self):
        return f"{self.kind}:{self.detail}"


class VProc:
    def __init__(self, world, name, host, env, target, kind="user", free_start=False, guard=None):
        self.world = world
        self.name = name
        self.host = host
        self.env_stack = [dict(env)]
        self.target = target
        self.kind = kind  # login | node | user
        self.free_start = free_start
        self.guard = guard
        self.index = len(world.vprocs)
        self.sem = threading.Semaphore(0)
        self._started = threading.Event()
        self.status = READY
        self.pending = None
        self.choice = ""
        self.nsync = 0
        self.dg = b"\0" * 16
        self.exit_code = None
        self.exc = None
        self.tb = None
        self.killed = False
        self.holding = []  # lock files currently held (paths)
        self.jobs = {}  # name -> FakeJob currently running on this vproc
        self.idle_polls = 0
        self.batch_id = None  # simulated SLURM id for nodes
        self.nested = 0
        self.data = {}
        self.thread = None
        world.vprocs.append(self)

    # ------------------------------------------------------------------ thread side
    def start_thread(self):
        self.thread = threading.Thread(target=self._body, name="vp-" + self.name, daemon=True)
        self.thread.start()
        if not self._started.wait(WATCHDOG_S):
            raise HarnessError(f"vproc {self.name} did not start")

    def _body(self):
        tls.vproc = self
        tls.inhook = 0
        w = self.world
        try:
            self.pending = Op("start", "", guard=self.guard)
            self._started.set()
            self.sem.acquire()
            if w.closed or self.killed:
                raise Abort()
            w.emit("vstart", vp=self)
            crashed = False
            try:
                code = self.target()
                code = 0 if code is None else code
            except SystemExit as e:
                code = e.code
                if code is None:
                    code = 0
                elif not isinstance(code, int):
                    code = 1
            except Abort:
                raise
            except BaseException as e:  # noqa
                crashed = True
                code = 1
                self.exc = f"{type(e).__name__}: {e}"
                self.tb = traceback.format_exc()
            self.exit_code = code
            w.emit("vend", vp=self, code=code, crashed=crashed, exc=self.exc)
            if self.kind == "node":
                # the process is gone only in its own transition: until then squeue shows it
                self.sync(Op("exit", ""))
                w.sim.node_exit(self)
            self.status = CRASHED if crashed else DONE
            w.emit("vexit", vp=self, code=code, crashed=crashed)
        except Abort:
            if self.status == READY:
                self.status = ABORTED
        except BaseException as e:  # harness bug inside the thread
            self.status = CRASHED
            self.exc = f"HARNESS {type(e).__name__}: {e}"
            self.tb = traceback.format_exc()
            w.harness_errors.append(self.tb)
        finally:
            tls.vproc = None
            self.pending = None
            w.back.release()

    def sync(self, op):
        """Park at a sync point with pending operation `op`; return the alternative chosen."""
        w = self.world
        if w.closed or self.killed:
            raise Abort()
        if in_raw():
            raise HarnessError(f"sync inside raw section: {op.label()}")
        self.pending = op
        self.nsync += 1
        w.back.release()
        self.sem.acquire()
        if w.closed or self.killed:
            raise Abort()
        self.pending = None
        return self.choice

    def die(self, why):
        """Called from the vproc's own thread: the process is killed here (never returns)."""
        w = self.world
        w.kill(self, why)
        w.back.release()
        self.sem.acquire()
        raise Abort()

    def observe(self, s):
        self.dg = hashlib.blake2b(self.dg + s.encode("utf-8", "replace"), digest_size=16).digest()

    @property
    def env(self):
        return self.env_stack[-1]

    def state_repr(self):
        p = self.pending
        return "%d|%s|%s|%d|%s|%s" % (
            self.index,
            self.status,
            p.label() if p is not None else "-",
            self.nsync,
            self.dg.hex(),
            self.exit_code,
        )


IGNORED_PREFIXES = ("job-stdio/", "job-outputs/")


def _canon_content(rel, data):
    # results.json carries a wall-clock timestamp line
    if rel.endswith("results.json") or rel.endswith("results.txt"):
        out = []
        for line in data.split(b"\n"):
            if b'"timestamp"' in line:
                continue
            out.append(line)
        return b"\n".join(out)
    return data


class World:
    """One execution: a fresh shared directory, vprocs, the simulated scheduler, oracles."""

    def __init__(self, root, scen, level=0, lockmode="never_break", oracles=(), fault_plan=None):
        self.root = root
        self.rootp = root + "/"
        self.scen = scen
        self.level = level
        self.lockmode = lockmode
        self.vprocs = []
        self.last = None
        self.clock = 1700000000.0
        self.trace = []
        self.oracles = list(oracles)
        self.violations = []
        self.harness_errors = []
        self.notes = set()
        self.closed = False
        self.back = threading.Semaphore(0)
        self.preempts = 0
        self.faults = 0
        self.steps = 0
        self.sim = None
        self.fault_plan = fault_plan
        self.dirty = set()
        self.written = set()
        self.fh = {}
        self.next_pid = 5000
        self.hit_horizon = False
        self.unknown_paths = set()
        self.lock_notes = set()
        self.data = {}
        fp = scen.get("free_at_poll") if isinstance(scen, dict) else None
        self.free_at_poll = bool(fp) if fp is not None else os.environ.get("JMC_FREE_AT_POLL", "0") == "1"
        # preemptions are only explored where one side is a named vproc (scenario option `preempt_focus`): the
        # interleavings of the other processes with each other are left to the scenarios without the option
        pf = scen.get("preempt_focus") if isinstance(scen, dict) else None
        self.preempt_focus = frozenset(pf) if pf else None

    # ------------------------------------------------------------------ paths
    def rel(self, path):
        """Relative path under the shared root, or None."""
        if path.startswith(self.rootp):
            return path[len(self.rootp):]
        if path == self.root:
            return ""
        return None

    # ------------------------------------------------------------------ events
    def emit(self, kind, **data):
        vp = data.get("vp") or cur_vproc()
        tls.inhook = getattr(tls, "inhook", 0) + 1  # oracle code is the harness, not JADE
        try:
            for o in self.oracles:
                f = getattr(o, "on_" + kind, None)
                if f is not None:
                    f(self, vp, data)
        finally:
            tls.inhook -= 1

    def log(self, s):
        self.trace.append(s)

    def violation(self, prop, msg, sig=None):
        self.violations.append({"property": prop, "message": msg, "sig": sig or msg})

    # ------------------------------------------------------------------ vprocs
    def spawn(self, name, host, env, target, kind="user", free_start=False, guard=None):
        vp = VProc(self, name, host, env, target, kind=kind, free_start=free_start, guard=guard)
        vp.start_thread()
        return vp

    def kill(self, vp, why="kill"):
        vp.killed = True
        vp.status = DEAD
        self.log(f"KILL {vp.name} ({why})")
        if self.sim is not None:
            self.sim.vproc_killed(vp)
        self.emit("killed", vp=vp, why=why)

    # ------------------------------------------------------------------ scheduling
    def options(self):
        """Enabled (vproc, alt, is_fault) in canonical order: last-run vproc first."""
        opts = []
        order = [v for v in self.vprocs if v.status == READY and v.pending is not None]
        last = self.last
        if last is not None:
            order.sort(key=lambda v: (v is not last, v.index))
        blocked = []
        sleepers = []
        for v in order:
            op = v.pending
            if op.kind == "sleep" and v is last:
                # a process that just went to sleep runs again only after somebody else moved
                sleepers.append(v)
                continue
            if op.guard is not None and not op.guard(self):
                if op.kind == "acquire":
                    blocked.append(v)
                continue
            alts = op.alts
            if alts is None:
                alts = ("",)
            elif callable(alts):
                alts = alts(self)
            for a in alts:
                opts.append((v, a, 0))
            if self.fault_plan is not None:
                for a in self.fault_plan(self, v, op):
                    opts.append((v, a, 1))
        if sleepers and (not opts or (self.free_at_poll and all(o[0].pending.kind == "poll" for o in opts))):
            # nobody else can move, or everybody else is only waiting for running jobs: the sleeper's
            # timer may fire first (a retry delay of seconds against jobs that run for hours)
            for v in sleepers:
                opts.append((v, "", 0))
        if not opts and blocked:
            # global quiescence with lock waiters: the 300 s timeout elapses in one of them
            for v in blocked:
                opts.append((v, "timeout", 0))
        return opts

    def option_cost(self, opt, last_enabled):
        v, alt, is_fault = opt
        p = 0
        if (
            self.last is not None
            and last_enabled
            and v is not self.last
            and not (v.free_start and v.pending.kind == "start")
            and not (self.free_at_poll and self.last.pending is not None and self.last.pending.kind == "poll")
        ):
            # (a process parked at a poll with running jobs is WAITING for them: leaving it is not a
            # preemption - how long jobs run relative to everybody else's progress is the environment's choice)
            p = 1
            if self.preempt_focus is not None and v.name not in self.preempt_focus and self.last.name not in self.preempt_focus:
                p = 1000  # outside every budget
        return (p, 1 if is_fault else 0)

    def fire(self, opt):
        v, alt, is_fault = opt
        self.steps += 1
        if is_fault:
            self.data["faulty"] = True
            self.data.setdefault("faults", []).append((v.name, v.pending.label(), alt))
            self.emit("fault", vp=v, alt=alt, op=v.pending)
        if alt == "kill":
            self.log(f"{v.name}: KILLED before {v.pending.label()}")
            self.kill(v, "fault")
            return
        self.log(f"{v.name}: {v.pending.label()}" + (f" [{alt}]" if alt else ""))
        v.choice = alt
        self.last = v
        self.written = set()
        v.sem.release()
        if not self.back.acquire(timeout=WATCHDOG_S):
            raise HarnessError(
                f"watchdog: transition {v.name}:{v.pending.label() if v.pending else '?'} "
                "did not reach a sync point"
            )
        if self.harness_errors:
            raise HarnessError(self.harness_errors[0])
        self.emit("transition", vp=v)

    # ------------------------------------------------------------------ state hashing
    def mark_dirty(self, rel):
        self.dirty.add(rel)
        self.written.add(rel)

    def _hash_file(self, rel):
        path = self.rootp + rel if rel else self.root
        try:
            st = os.lstat(path)
        except OSError:
            self.fh.pop(rel, None)
            # a removed directory: drop the subtree
            pre = rel + "/"
            for k in [k for k in self.fh if k.startswith(pre)]:
                del self.fh[k]
            return
        import stat as _s

        if _s.S_ISDIR(st.st_mode):
            self.fh[rel] = b"D"
            pre = rel + "/" if rel else ""
            for k in [k for k in self.fh if k.startswith(pre) and k != rel]:
                del self.fh[k]
            for name in os.listdir(path):
                r = pre + name
                if r.startswith(IGNORED_PREFIXES):
                    continue
                self._hash_file(r)
        else:
            try:
                with open(path, "rb") as f:
                    data = f.read()
            except OSError:
                self.fh.pop(rel, None)
                return
            self.fh[rel] = hashlib.blake2b(_canon_content(rel, data), digest_size=12).digest()

    def refresh_hashes(self):
        if not self.dirty:
            return
        d = self.dirty
        self.dirty = set()
        for rel in d:
            if rel and rel.startswith(IGNORED_PREFIXES):
                continue
            self._hash_file(rel)

    def full_rehash(self):
        old = dict(self.fh)
        self.fh = {}
        self._hash_file("")
        return old

    def dir_digest(self):
        self.refresh_hashes()
        h = hashlib.blake2b(digest_size=16)
        for rel in sorted(self.fh):
            h.update(rel.encode())
            h.update(b"\0")
            h.update(self.fh[rel])
        return h.digest()

    def state_key(self):
        h = hashlib.blake2b(digest_size=16)
        h.update(self.dir_digest())
        if self.sim is not None:
            h.update(self.sim.state_repr().encode())
        for v in self.vprocs:
            h.update(v.state_repr().encode())
            h.update(b";")
        h.update(str(self.last.index if self.last is not None else -1).encode())
        for o in self.oracles:
            h.update(o.digest().encode())
            h.update(b";")
        return h.digest()

    # ------------------------------------------------------------------ teardown
    def close(self):
        self.closed = True
        for v in self.vprocs:
            if v.thread is not None and v.thread.is_alive():
                v.sem.release()
        for v in self.vprocs:
            if v.thread is not None:
                v.thread.join(WATCHDOG_S)
                if v.thread.is_alive():
                    raise HarnessError(f"thread of {v.name} did not unwind")


class Execution:
    __slots__ = ("choices", "labels", "points", "violations", "pruned", "outcome", "steps",
                 "horizon", "trace", "world_notes", "final")

    def __init__(self):
        self.choices = []
        self.labels = []
        self.points = []  # (pre_cost, [(cost, label)...]) per choice point
        self.violations = []
        self.pruned = False
        self.outcome = None
        self.steps = 0
        self.horizon = False
        self.trace = None
        self.final = None


def opt_label(opt):
    v, alt, f = opt
    return f"{v.name}|{v.pending.label()}|{alt}" + ("!" if f else "")


class Explorer:
    """DFS by prefix replay over worlds created by `make_world()`."""

    def __init__(self, make_world, budget=(0, 0), cache=True, max_exec=None, deadline=None,
                 keep_trace=False, on_execution=None, shard=None):
        self.shard = shard  # (k, n): explore only every n-th first-level alternative (own cache)
        self.make_world = make_world
        self.budget = budget
        self.use_cache = cache
        self.cache = {}
        self.max_exec = max_exec
        self.deadline = deadline
        self.keep_trace = keep_trace
        self.on_execution = on_execution
        self.executions = 0
        self.transitions = 0
        self.pruned = 0
        self.outcomes = {}
        self.violations = []
        self.capped = None
        self.max_depth = 0
        self.horizon_hits = 0
        self.samples = []
        self.notes = set()

    # -- one execution -------------------------------------------------------------
    def execute(self, prefix, expect=None, cache=None, trace=False):
        w = self.make_world()
        x = Execution()
        cost = (0, 0)
        try:
            i = 0
            while True:
                opts = w.options()
                if not opts:
                    break
                last_enabled = any(o[0] is w.last for o in opts)
                if i < len(prefix):
                    k = prefix[i]
                    if k >= len(opts):
                        raise HarnessError(
                            f"replay divergence at {i}: option {k} of {len(opts)} "
                            f"{[opt_label(o) for o in opts]}"
                        )
                    if expect is not None and i < len(expect) and opt_label(opts[k]) != expect[i]:
                        raise HarnessError(
                            f"replay divergence at {i}: expected {expect[i]} got {opt_label(opts[k])}"
                        )
                else:
                    if cache is not None:
                        key = w.state_key()
                        if self.budget[0] >= 99:
                            # unbounded preemptions: the cost of reaching a state is irrelevant
                            cost_k = (0, cost[1])
                        else:
                            cost_k = cost
                        seen = cache.get(key)
                        if seen is not None and any(
                            c[0] <= cost_k[0] and c[1] <= cost_k[1] for c in seen
                        ):
                            x.pruned = True
                            break
                        if seen is None:
                            cache[key] = [cost_k]
                        else:
                            seen[:] = [c for c in seen if not (cost_k[0] <= c[0] and cost_k[1] <= c[1])]
                            seen.append(cost_k)
                    k = 0
                    self.transitions += 1
                oc = [w.option_cost(o, last_enabled) for o in opts]
                x.points.append((cost, oc, [opt_label(o) for o in opts]))
                x.choices.append(k)
                x.labels.append(x.points[-1][2][k])
                cost = (cost[0] + oc[k][0], cost[1] + oc[k][1])
                w.preempts, w.faults = cost
                w.fire(opts[k])
                i += 1
                if w.violations:
                    break
                if i >= HORIZON:
                    x.horizon = True
                    break
            if not x.pruned and not w.violations and not x.horizon:
                w.emit("end")
                x.outcome = w.data.get("outcome")
            x.violations = list(w.violations)
            x.steps = i
            x.final = w.data.get("final")
            if trace or x.violations:
                x.trace = list(w.trace)
            self.notes |= w.notes
        finally:
            w.close()
            fin = getattr(w, "finalize", None)
            if fin:
                fin()
        return x

    # -- the search ----------------------------------------------------------------
    def run(self):
        P, F = self.budget
        stack = [((), ())]
        cache = self.cache if self.use_cache else None
        while stack:
            if self.max_exec is not None and self.executions >= self.max_exec:
                self.capped = f"max_exec={self.max_exec}"
                break
            if self.deadline is not None and _time.monotonic() > self.deadline:
                self.capped = "deadline"
                break
            prefix, expect = stack.pop()
            x = self.execute(prefix, expect, cache)
            self.executions += 1
            self.max_depth = max(self.max_depth, x.steps)
            if x.horizon:
                self.horizon_hits += 1
            if x.pruned:
                self.pruned += 1
            if x.outcome is not None:
                self.outcomes[x.outcome] = self.outcomes.get(x.outcome, 0) + 1
            if len(self.samples) < 3 and not x.pruned:
                self.samples.append(list(x.labels))
            if self.on_execution is not None:
                self.on_execution(x)
            if x.violations:
                for v in x.violations:
                    v = dict(v)
                    v["choices"] = list(x.choices)
                    v["labels"] = list(x.labels)
                    v["trace"] = x.trace
                    self.violations.append(v)
                # do not branch below a violating execution's violating step; siblings still run
            npts = len(x.points)
            new = []
            for i in range(npts - 1, len(prefix) - 1, -1):
                pre, ocs, labels = x.points[i]
                for alt in range(len(ocs) - 1, 0, -1):
                    c = (pre[0] + ocs[alt][0], pre[1] + ocs[alt][1])
                    if c[0] > P or c[1] > F:
                        continue
                    new.append(
                        (tuple(x.choices[:i]) + (alt,), tuple(x.labels[:i]) + (labels[alt],))
                    )
            if self.shard is not None and not prefix:
                k, n = self.shard
                new = [e for j, e in enumerate(new) if j % n == k]
            stack.extend(new)
        return self

    def stats(self):
        return {
            "executions": self.executions,
            "states": len(self.cache) if self.use_cache else None,
            "transitions": self.transitions,
            "pruned": self.pruned,
            "outcomes": len(self.outcomes),
            "max_depth": self.max_depth,
            "capped": self.capped,
            "horizon_hits": self.horizon_hits,
            "violations": len(self.violations),
        }
