"""Process bootstrap: import jade from /repo's working tree, install interception.

Must be imported before anything else imports `jade`.
"""

import os
import sys

REPO = os.environ.get("JMC_REPO", "/repo")
VERIF = os.path.dirname(os.path.dirname(os.path.abspath(__file__)))
WORK = os.path.join(VERIF, "work")

if os.environ.get("PYTHONHASHSEED") != "0":
    # reproducible set/dict-of-str iteration: re-exec once
    os.environ["PYTHONHASHSEED"] = "0"
    os.environ.setdefault("PYTHONDONTWRITEBYTECODE", "1")
    os.execv(sys.executable, [sys.executable] + sys.argv)

sys.dont_write_bytecode = True
if REPO not in sys.path:
    sys.path.insert(0, REPO)
os.makedirs(WORK, exist_ok=True)
REGISTRY = os.path.join(WORK, "registry.json")
os.environ["JADE_REGISTRY"] = REGISTRY

import logging  # noqa: E402
import warnings  # noqa: E402

warnings.filterwarnings("ignore")


def _write_registry():
    import json

    from jade.extensions.registry import DEFAULT_REGISTRY, Registry

    data = dict(DEFAULT_REGISTRY)
    data["format_version"] = Registry.FORMAT_VERSION
    tmp = REGISTRY + ".%d" % os.getpid()
    with open(tmp, "w") as f:
        json.dump(data, f)
    os.replace(tmp, REGISTRY)


import jade  # noqa: E402

if not os.path.abspath(jade.__file__).startswith(REPO + "/"):
    raise RuntimeError(f"jade imported from {jade.__file__}, expected {REPO}")

_write_registry()

# import everything the CLI can reach before rebinding by identity
import jade.cli.jade  # noqa: E402,F401
import jade.cli.jade_internal  # noqa: E402,F401
import jade.jobs.job_submitter  # noqa: E402,F401
import jade.jobs.job_runner  # noqa: E402,F401
import jade.jobs.pipeline_manager  # noqa: E402,F401
import jade.resource_monitor  # noqa: E402,F401

from . import intercept  # noqa: E402

intercept.install()
REBOUND = intercept.rebind_jade()


def quiet():
    """Silence logging/stdout for S and F modes (DESIGN 1.2 'Logging')."""
    logging.disable(logging.CRITICAL)


class _Null:
    def write(self, s):
        return len(s)

    def flush(self):
        pass

    def isatty(self):
        return False


REAL_STDOUT = sys.stdout
REAL_STDERR = sys.stderr


def mute_stdio():
    sys.stdout = _Null()
    sys.stderr = _Null()


def unmute_stdio():
    sys.stdout = REAL_STDOUT
    sys.stderr = REAL_STDERR


def say(*a):
    print(*a, file=REAL_STDOUT, flush=True)
