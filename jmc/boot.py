"""Process bootstrap: import jade from /repo's working tree, install interception.

Must be imported before anything else imports `jade`.
"""

import os
import sys

REPO = os.environ.get("JMC_REPO", "/repo")
VERIF = os.path.dirname(os.path.dirname(os.path.abspath(__file__)))
WORK = os.path.join(VERIF, "work")

if os.environ.get("PYTHONHASHSEED") != "0":
    # reproducible set/dict-of-str iteration: re-exec once
    os.environ["PYTHONHASHSEED"] = "0"
    os.environ.setdefault("PYTHONDONTWRITEBYTECODE", "1")
    os.execv(sys.executable, [sys.executable] + sys.argv)

sys.dont_write_bytecode = True
if REPO not in sys.path:
    sys.path.insert(0, REPO)
os.makedirs(WORK, exist_ok=True)
REGISTRY = os.path.join(WORK, "registry.json")
os.environ["JADE_REGISTRY"] = REGISTRY

import logging  # noqa: E402
import warnings  # noqa: E402

warnings.filterwarnings("ignore")


def _write_registry():
    import json

    from jade.extensions.registry import DEFAULT_REGISTRY, Registry

    data = dict(DEFAULT_REGISTRY)
    data["format_version"] = Registry.FORMAT_VERSION
    tmp = REGISTRY + ".%d" % os.getpid()
    with open(tmp, "w") as f:
        json.dump(data, f)
    os.replace(tmp, REGISTRY)


import jade  # noqa: E402

if not os.path.abspath(jade.__file__).startswith(REPO + "/"):
    raise RuntimeError(f"jade imported from {jade.__file__}, expected {REPO}")

_write_registry()

# import everything the CLI can reach before rebinding by identity
import jade.cli.jade  # noqa: E402,F401
import jade.cli.jade_internal  # noqa: E402,F401
import jade.jobs.job_submitter  # noqa: E402,F401
import jade.jobs.job_runner  # noqa: E402,F401
import jade.jobs.pipeline_manager  # noqa: E402,F401
import jade.resource_monitor  # noqa: E402,F401

from . import intercept  # noqa: E402

intercept.install()
REBOUND = intercept.rebind_jade()


def quiet():
    """Silence logging/stdout for S and F modes (DESIGN 1.2 'Logging')."""
    logging.disable(logging.CRITICAL)


class _Null:
    def write(self, s):
        return len(s)

    def flush(self):
        pass

    def isatty(self):
        return False


REAL_STDOUT = sys.stdout
REAL_STDERR = sys.stderr


def mute_stdio():
    sys.stdout = _Null()
    sys.stderr = _Null()


def unmute_stdio():
    sys.stdout = REAL_STDOUT
    sys.stderr = REAL_STDERR


def say(*a):
    print(*a, file=REAL_STDOUT, flush=True)


# ------------------------------------------------------------------------------ module-level state
# jade has no mutable module-level state of its own (DESIGN 1.2), but a change to jade may introduce
# some (a functools cache, a module-level dict).  In one interpreter that state would leak from one
# execution into the next and make replays diverge, so it is reset before every execution.
import copy as _copy  # noqa: E402

_MODULE_STATE = {}


def snapshot_module_state():
    snapshot_new_modules()


_CACHE_CLEARS = []
_NMODS = [0]


def _find_cache_clears():
    del _CACHE_CLEARS[:]
    for name, mod in list(sys.modules.items()):
        if not (name == "jade" or name.startswith("jade.")) or mod is None:
            continue
        for k, v in list(vars(mod).items()):
            cc = getattr(v, "cache_clear", None)
            if cc is not None and callable(cc):
                _CACHE_CLEARS.append(cc)
            elif isinstance(v, type) and v.__module__ == name:
                for ak, av in list(vars(v).items()):
                    f = getattr(av, "__func__", av)
                    cc = getattr(f, "cache_clear", None)
                    if cc is not None and callable(cc):
                        _CACHE_CLEARS.append(cc)
    _NMODS[0] = len(sys.modules)


def reset_module_state():
    for (name, k), (obj, init) in _MODULE_STATE.items():
        if obj != init:
            obj.clear()
            if isinstance(obj, list):
                obj.extend(_copy.deepcopy(init))
            else:
                obj.update(_copy.deepcopy(init))
    if _NMODS[0] != len(sys.modules):
        snapshot_new_modules()
        _find_cache_clears()
    for cc in _CACHE_CLEARS:
        try:
            cc()
        except Exception:  # noqa
            pass


def snapshot_new_modules():
    seen = {n for (n, k) in _MODULE_STATE}
    for name, mod in list(sys.modules.items()):
        if not (name == "jade" or name.startswith("jade.")) or mod is None or name in seen:
            continue
        for k, v in list(vars(mod).items()):
            if not k.startswith("__") and type(v) in (dict, list, set):
                try:
                    _MODULE_STATE[(name, k)] = (v, _copy.deepcopy(v))
                except Exception:  # noqa
                    pass
            elif isinstance(v, type) and getattr(v, "__module__", None) == name:
                # mutable class attributes (a class-level cache / buffer is per-process state, too)
                for ck, cv in list(vars(v).items()):
                    if not ck.startswith("__") and type(cv) in (dict, list, set):
                        try:
                            _MODULE_STATE[(name, k + "." + ck)] = (cv, _copy.deepcopy(cv))
                        except Exception:  # noqa
                            pass


snapshot_module_state()
