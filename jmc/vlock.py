"""Model of filelock.SoftFileLock over the *real* marker file in the shared directory.

acquire = O_CREAT|O_EXCL of the marker (blocking while it exists), release = unlink if still ours.
Two library behaviours (DESIGN 1.2): never_break / break_stale.
"""

import os

import filelock

from .engine import tls, Op, Abort, raw, in_raw


class VSoftFileLock:
    def __init__(self, lock_file, timeout=-1, **kw):
        self._lock_file = os.fspath(lock_file)
        self._timeout = timeout
        self._locked = False
        self._count = 0

    @property
    def lock_file(self):
        return self._lock_file

    @property
    def is_locked(self):
        return self._locked

    def _try_create(self):
        try:
            fd = os.open(self._lock_file, os.O_CREAT | os.O_EXCL | os.O_WRONLY, 0o644)
        except FileExistsError:
            return False
        os.close(fd)
        return True

    def acquire(self, timeout=None, poll_interval=0.05, **kw):
        vp = getattr(tls, "vproc", None)
        if self._locked:
            self._count += 1
            return self
        path = self._lock_file
        if vp is None or in_raw():
            # sequential use (mode E, harness itself): no contention possible
            if not self._try_create():
                raise filelock.Timeout(path)
            self._locked = True
            self._count = 1
            return self
        w = vp.world
        rel = w.rel(path)

        def free(world, path=path, vp=vp):
            try:
                st = os.lstat(path)
            except OSError:
                return True
            if world.lockmode == "break_stale":
                return world.sim.marker_is_stale(path, st, vp)
            return False

        alt = vp.sync(Op("acquire", rel if rel is not None else path, guard=free))
        if alt in ("timeout", "lock-timeout"):
            w.emit("lock_timeout", vp=vp, rel=rel)
            raise filelock.Timeout(path)
        with raw():
            if not self._try_create():
                # break_stale: remove the stale marker, then take it
                try:
                    os.unlink(path)
                except OSError:
                    pass
                if not self._try_create():
                    raise filelock.Timeout(path)
                w.emit("lock_broken", vp=vp, rel=rel)
            if rel is not None:
                w.mark_dirty(rel)
            w.sim.marker_owner[path] = vp
        self._locked = True
        self._count = 1
        vp.holding.append(path)
        if rel is not None:
            vp.data["acq:" + rel] = vp.data.get("acq:" + rel, 0) + 1
        w.emit("acquired", vp=vp, rel=rel)
        return self

    def release(self, force=False):
        if not self._locked:
            return
        self._count -= 1
        if self._count > 0 and not force:
            return
        vp = getattr(tls, "vproc", None)
        path = self._lock_file
        if vp is not None and not in_raw():
            w = vp.world
            if w.closed or vp.killed:
                raise Abort()
            rel = w.rel(path)
            if w.level >= 2:
                vp.sync(Op("release", rel if rel is not None else path))
            with raw():
                try:
                    os.unlink(path)
                except OSError:
                    pass
                if rel is not None:
                    w.mark_dirty(rel)
                w.sim.marker_owner.pop(path, None)
            if path in vp.holding:
                vp.holding.remove(path)
            w.emit("released", vp=vp, rel=rel)
        else:
            try:
                os.unlink(path)
            except OSError:
                pass
        self._locked = False
        self._count = 0

    def __enter__(self):
        self.acquire()
        return self

    def __exit__(self, *a):
        self.release()
