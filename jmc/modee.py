"""Mode E: bounded-exhaustive enumeration of input / operation-sequence / environment-answer spaces,
each element run through the real code and compared with a small reference model (DESIGN 0, 3).

Generic driver: a check provides `cases()` (deterministic list of plain-data cases) and
`evaluate(case) -> list of violation dicts`.  Cases are split over the worker pool in chunks."""

import itertools
import json
import os
import sys
import time
import traceback

from . import boot
from .run import run_pool, finish, NCPU

_REG = {}


def register(name):
    def deco(cls):
        _REG[name] = cls
        return cls

    return deco


def _run_chunk(arg):
    name, lo, hi, tier = arg
    boot.quiet()
    boot.mute_stdio()
    out = dict(name=name, n=0, nontrivial=0, violations=[], error=None, samples=[], kinds={}, notes=[])
    try:
        chk = _REG[name](tier)
        cases = chk.cases()
        chk.begin()
        try:
            for i in range(lo, min(hi, len(cases))):
                c = cases[i]
                try:
                    r = chk.evaluate(c)
                except Exception as e:  # noqa
                    # an exception raised inside jade's own code on a case of the (valid) domain is a
                    # verdict about jade; anything else is a bug of the checker
                    tb = traceback.extract_tb(e.__traceback__)
                    inner = tb[-1].filename if tb else ""
                    jade_frames = [f for f in tb if f.filename.startswith(boot.REPO + "/")]
                    if jade_frames and (inner.startswith(boot.REPO + "/") or "/site-packages/" in inner or "/lib/python" in inner):
                        f = jade_frames[-1]
                        r = [V(f"exception:{type(e).__name__}@{os.path.basename(f.filename)}:{f.name}",
                               f"jade raised {type(e).__name__}: {e} in {os.path.basename(f.filename)}:{f.lineno} ({f.name}) on case {chk.show(c)!r}"[:1500])]
                    else:
                        out["error"] = f"case {c!r}: " + traceback.format_exc()
                        break
                wt = chk.weight(c)
                out["n"] += wt
                k = chk.kind(c)
                out["kinds"][k] = out["kinds"].get(k, 0) + wt
                if chk.nontrivial(c):
                    out["nontrivial"] += wt
                if i == lo and len(out["samples"]) < 1:
                    out["samples"].append(chk.show(c))
                for v in r or []:
                    v = dict(v)
                    v["case"] = c
                    v["kind"] = "case"
                    v["check"] = name
                    v["tier"] = tier
                    out["violations"].append(v)
            out["notes"] = sorted(chk.notes)
        finally:
            chk.end()
    except Exception:
        out["error"] = traceback.format_exc()
    finally:
        boot.unmute_stdio()
    return out


def enum_check(prop, tier, names, rule, assumptions, chunk=None, system_tasks=None):
    """Enumerate every case of every registered sub-check in `names` (plus optional mode-S tasks whose
    counts are reported under coverage.system_level)."""
    t0 = time.monotonic()
    sysinfo = None
    sys_viol, sys_err = [], []
    if system_tasks:
        from .run import run_task

        tot = dict(executions=0, states=0, transitions=0, scenarios=0)
        caps = []
        if tier == "thorough":
            os.environ.setdefault("JMC_FREE_AT_POLL", "1")
            for t in system_tasks:
                t.setdefault("time_cap", 1200.0)
                t["deadline_at"] = time.time() + float(os.environ.get("JMC_RUN_BUDGET", "2700"))
        for r in run_pool(run_task, system_tasks):
            tot["scenarios"] += 1
            if r["error"]:
                sys_err.append(f"task {r['id']}: {r['error']}")
                continue
            for k in ("executions", "states", "transitions"):
                tot[k] += r[k]
            if r["capped"]:
                caps.append(f"{r['id']}: {r['capped']}")
            sys_viol += [v for v in r["violations"] if v["property"] == prop]
        sysinfo = dict(tot, caps_hit=caps, traces_validated_against_impl=tot["executions"])
    args = []
    sizes = {}
    for name in names:
        chk = _REG[name](tier)
        cs = chk.cases()
        n = len(cs)
        sizes[name] = sum(chk.weight(c) for c in cs)
        c = chunk or max(1, min(2000, (n + NCPU * 4 - 1) // (NCPU * 4)))
        for lo in range(0, n, c):
            args.append((name, lo, lo + c, tier))
    tot = 0
    nontriv = 0
    violations = []
    errors = []
    samples = []
    kinds = {}
    notes = set()
    for r in run_pool(_run_chunk, args):
        if r["error"]:
            errors.append(f"{r['name']}: {r['error']}")
            continue
        tot += r["n"]
        nontriv += r["nontrivial"]
        for k, v in r["kinds"].items():
            kk = f"{r['name']}:{k}"
            kinds[kk] = kinds.get(kk, 0) + v
        for v in r["violations"]:
            v["property"] = prop
            violations.append(v)
        notes.update(r["notes"])
        if r["samples"] and sum(1 for s in samples if s.get("sub") == r["name"]) < 2:
            samples.append(dict(sub=r["name"], case=r["samples"][0]))
    expected = sum(sizes.values())
    if not errors and tot != expected:
        errors.append(f"enumeration incomplete: {tot} of {expected} cases evaluated")
    cov = dict(
        evaluations=tot,
        distinct_nontrivial=nontriv,
        rule=rule,
        samples=samples[:8] or [{"note": "none"}],
        exhaustive=(tot == expected),
        domain_sizes=sizes,
        case_kinds=kinds,
        notes=sorted(notes),
        explanation="each case is one element of a finite, completely enumerated domain, executed by the real "
                    "JADE code and compared with a reference model written in /verif/jmc",
    )
    if sysinfo is not None:
        cov["system_level"] = sysinfo
        cov["evaluations"] += sysinfo["executions"]
        cov["distinct_nontrivial"] += sysinfo["executions"]
        cov["exhaustive"] = cov["exhaustive"] and not sysinfo["caps_hit"]
        violations += sys_viol
        errors += sys_err
    return finish(prop, tier, "model_checking", cov, assumptions, t0, violations, errors)


class EnumCheck:
    """Base class of a mode-E sub-check."""

    def __init__(self, tier):
        self.tier = tier
        self.notes = set()

    def cases(self):
        raise NotImplementedError

    def evaluate(self, case):
        raise NotImplementedError

    def begin(self):
        pass

    def end(self):
        pass

    def kind(self, case):
        return "case"

    def weight(self, case):
        return 1

    def nontrivial(self, case):
        return True

    def show(self, case):
        return case


def V(sig, msg, cls=""):
    return dict(sig=sig, message=msg, cls=cls)


def replay(rp):
    """Re-evaluate one recorded case."""
    name = rp["case_check"] if "case_check" in rp else (rp.get("task") or {}).get("check")
    case = rp["case"]
    chk = _REG[rp["check"]](rp.get("tier", "quick"))
    chk.begin()
    try:
        r = chk.evaluate(case)
    finally:
        chk.end()
    print("case:", json.dumps(case, default=str)[:2000])
    for v in r or []:
        print(f"VIOLATION property={rp['property']} replay=-")
        print("  " + v["message"])
    return 1 if r else 0


def scratch(tag=""):
    """Per-process scratch directory (removed at exit by scen's atexit hook)."""
    from . import scen as S

    d = os.path.join(S.base_dir(), "e" + tag)
    import shutil

    shutil.rmtree(d, ignore_errors=True)
    os.makedirs(d)
    return d
