"""Mode-E sub-checks for C17 (configuration round trip / validation) and C19 (real job launches)."""

import itertools
import json
import os
import shlex
import shutil
import subprocess
import sys

from . import boot
from . import scen as S
from .modee import EnumCheck, register, V, scratch

# =============================================================================== helpers
def run_login_only(config_text, oracles=None):
    """Run `jade submit-jobs` on the given config text as the login vproc only (nodes never start)."""
    from .engine import READY
    from .oracles import ORACLES

    sc = S.scenario([], actors=[])
    sc["config_text"] = config_text
    w = S.make_world(sc, oracles=[ORACLES["Obs"]] + list(oracles or []))
    try:
        login = w.vprocs[0]
        for _ in range(500):
            opts = [o for o in w.options() if o[0] is login]
            if not opts:
                break
            w.fire(opts[0])
        obs = w.obs
        return dict(status=login.status, exc=login.exc, code=login.exit_code,
                    sbatch=[(r["accepted"], r["jobs"]) for r in obs.sbatch_log],
                    launches=len(obs.launch_log), blocked=login.status == READY)
    finally:
        w.close()


# =============================================================================== C17
NAME_OPTS = (None, "a", "job_1", "7")
OPT_VECTORS = ("none", "est", "est0", "flag", "group", "ajn", "aod", "ext", "all")


def name_vectors(n):
    out = []
    for t in itertools.product(NAME_OPTS, repeat=n):
        named = [x for x in t if x is not None]
        if len(named) == len(set(named)):
            out.append(t)
    return out


def build_d17(case):
    """Build the configuration of a D17 case through the public models."""
    from jade.extensions.generic_command import GenericCommandConfiguration, GenericCommandParameters
    from jade.models import HpcConfig, SubmissionGroup, SubmitterParams

    names, bb, style, opt, k, life = case
    n = len(names)
    gnames = ["default", "g2", "g3"][:k]
    kw = {}
    if life:
        for bit, key in zip(life, ("setup_command", "teardown_command", "node_setup_command", "node_teardown_command")):
            if bit:
                kw[key] = f"hook {key} --x 'a b'"
    cfg = GenericCommandConfiguration(**kw)
    eff = [nm if nm is not None else str(i + 1) for i, nm in enumerate(names)]
    for i in range(n):
        blockers = []
        for j in bb[i]:
            if names[j] is None and style in ("int", "assign"):
                blockers.append(j + 1)
            else:
                blockers.append(eff[j])
        jkw = dict(command=f"echo {i} 'x y'")
        if style != "assign":
            jkw["blocked_by"] = set(blockers)
        if names[i] is not None:
            jkw["name"] = names[i]
        if opt in ("est", "all"):
            jkw["estimated_run_minutes"] = 2  # == walltime below: the boundary must be accepted
        if opt == "est0":
            jkw["estimated_run_minutes"] = 0  # a legal value that is falsy
        if opt in ("flag", "all"):
            jkw["cancel_on_blocking_job_failure"] = True
        if opt in ("group", "all"):
            jkw["submission_group"] = gnames[i % k]
        if opt in ("ajn", "all"):
            jkw["append_job_name"] = True
        if opt in ("aod", "all"):
            jkw["append_output_dir"] = True
        if opt in ("ext", "all"):
            jkw["ext"] = {"k": [1, "two"], "nested": {"a": None}}
        p = GenericCommandParameters(**jkw)
        if style == "assign":
            # the public attribute (as `jade config assign-blocked-by` and user scripts do), ints for unnamed jobs
            p.blocked_by = [(j + 1) if names[j] is None else eff[j] for j in bb[i]]
        cfg.add_job(p)
    for g in gnames:
        cfg.append_submission_group(SubmissionGroup(name=g, submitter_params=SubmitterParams(
            hpc_config=HpcConfig(hpc_type="slurm", hpc={"account": "acct", "walltime": "0:02:00"}),
            per_node_batch_size=2, generate_reports=False, resource_monitor_type="none",
            resource_monitor_interval=None)))
    return cfg, eff


def d17_cases(maxn=3):
    out = []
    for n in range(1, maxn + 1):
        for names in name_vectors(n):
            for bb in S.dags(n):
                styles = ("str", "int", "assign") if any(bb) and any(x is None for x in names) else (("str", "assign") if any(bb) else ("str",))
                for style in styles:
                    for opt in OPT_VECTORS:
                        for k in (1, 2, 3):
                            out.append((names, bb, style, opt, k, None))
    for life in itertools.product((0, 1), repeat=4):
        out.append(((None, "a"), [[], [0]], "int", "none", 1, life))
    return out


def _norm_ser(d):
    d = dict(d)
    jobs = []
    for j in d.get("jobs", []):
        j = dict(j)
        j["blocked_by"] = sorted(j.get("blocked_by") or [])
        jobs.append(j)
    d["jobs"] = jobs
    return json.loads(json.dumps(d, sort_keys=True, default=str))


@register("c17_roundtrip")
class C17RoundTrip(EnumCheck):
    def cases(self):
        return d17_cases(3)

    def begin(self):
        self.dir = scratch("c17")

    def evaluate(self, case):
        from jade.jobs.job_configuration_factory import create_config_from_file
        from jade.jobs.job_submitter import JobSubmitter

        names, bb, style, opt, k, life = case
        cfg, eff = build_d17(case)
        f1 = os.path.join(self.dir, "c1.json")
        f2 = os.path.join(self.dir, "c2.json")
        cfg.dump(f1)
        back = create_config_from_file(f1)
        res = []
        a, b = _norm_ser(cfg.serialize()), _norm_ser(back.serialize())
        if a != b:
            diff = {k_: (a.get(k_), b.get(k_)) for k_ in set(a) | set(b) if a.get(k_) != b.get(k_)}
            res.append(V("roundtrip-serialize", f"serialize() differs after dump+load: {diff}"))
        oj, bj = cfg.list_jobs(), back.list_jobs()
        if [j.name for j in oj] != [j.name for j in bj] or [j.name for j in bj] != eff:
            res.append(V("roundtrip-order", f"job names/order {[j.name for j in bj]} != {eff}"))
        for x, y in zip(oj, bj):
            for attr in ("command", "cancel_on_blocking_job_failure", "submission_group",
                         "estimated_run_minutes", "append_job_name", "append_output_dir", "ext"):
                if getattr(x, attr) != getattr(y, attr):
                    res.append(V("roundtrip-field", f"job {x.name}: {attr} {getattr(x, attr)!r} -> {getattr(y, attr)!r}"))
            if set(x.get_blocking_jobs()) != set(y.get_blocking_jobs()):
                res.append(V("roundtrip-blocked-by", f"job {x.name}: blocked_by {x.get_blocking_jobs()} -> {y.get_blocking_jobs()}"))
        want_bb = [sorted(eff[j] for j in bb[i]) for i in range(len(bb))]
        if [sorted(j.get_blocking_jobs()) for j in bj] != want_bb:
            res.append(V("roundtrip-blocked-by", f"blocked_by after load {[sorted(j.get_blocking_jobs()) for j in bj]} != {want_bb}"))
        for attr in ("setup_command", "teardown_command", "node_setup_command", "node_teardown_command"):
            if getattr(cfg, attr) != getattr(back, attr):
                res.append(V("roundtrip-lifecycle", f"{attr}: {getattr(cfg, attr)!r} -> {getattr(back, attr)!r}"))
        back.dump(f2)
        with open(f1) as fa, open(f2) as fb:
            ta, tb = fa.read(), fb.read()
        if _norm_ser(json.loads(ta)) != _norm_ser(json.loads(tb)):
            res.append(V("roundtrip-second-dump", "second dump differs from the first"))
        # every valid configuration is accepted
        try:
            out = os.path.join(self.dir, "out")
            shutil.rmtree(out, ignore_errors=True)
            JobSubmitter.create(back, output=out)
        except Exception as e:  # noqa
            res.append(V("valid-rejected", f"valid configuration rejected: {type(e).__name__}: {e}"))
        return res

    def kind(self, c):
        return f"n={len(c[0])},groups={c[4]}"

    def nontrivial(self, c):
        return len(c[0]) > 1 or c[3] != "none" or c[5] is not None


@register("c17_reordered")
class C17Reordered(EnumCheck):
    """The job list of a dumped configuration in every other listing order (what `shuffle_jobs` / `jade config create
    --shuffle` / a hand-edited file produce): unnamed jobs keep the name given by their job_id, blockers keep
    pointing at the same jobs, the configuration is still accepted."""

    def cases(self):
        out = []
        for n in (2, 3):
            for names in name_vectors(n):
                if not any(x is None for x in names):
                    continue
                for bb in S.dags(n):
                    for style in (("str", "int") if any(bb) else ("str",)):
                        for perm in itertools.permutations(range(n)):
                            if list(perm) == list(range(n)):
                                continue
                            out.append((names, bb, style, perm))
        return out

    def begin(self):
        self.dir = scratch("c17r")

    def evaluate(self, case):
        from jade.jobs.job_configuration_factory import create_config_from_file
        from jade.jobs.job_submitter import JobSubmitter

        names, bb, style, perm = case
        cfg, eff = build_d17((names, bb, style, "none", 1, None))
        f1 = os.path.join(self.dir, "r1.json")
        f2 = os.path.join(self.dir, "r2.json")
        cfg.dump(f1)
        with open(f1) as f:
            data = json.load(f)
        data["jobs"] = [data["jobs"][i] for i in perm]
        with open(f1, "w") as f:
            json.dump(data, f, indent=1)
        res = []
        try:
            back = create_config_from_file(f1)
        except Exception as e:  # noqa
            return [V("reordered-rejected", f"configuration with jobs listed in order {[eff[i] for i in perm]} could not be loaded: {type(e).__name__}: {e}")]
        want_names = [eff[i] for i in perm]
        got = back.list_jobs()
        if [j.name for j in got] != want_names:
            res.append(V("reordered-names", f"jobs listed as {want_names} load as {[j.name for j in got]}"))
        want_bb = [sorted(eff[j] for j in bb[i]) for i in perm]
        if [sorted(str(x) for x in j.get_blocking_jobs()) for j in got] != want_bb:
            res.append(V("reordered-blocked-by", f"blocked_by after load {[sorted(j.get_blocking_jobs()) for j in got]} != {want_bb} (listing {want_names})"))
        back.dump(f2)
        again = create_config_from_file(f2)
        if [j.name for j in again.list_jobs()] != [j.name for j in got]:
            res.append(V("reordered-second-load", f"second dump+load renames jobs: {[j.name for j in got]} -> {[j.name for j in again.list_jobs()]}"))
        try:
            out = os.path.join(self.dir, "out")
            shutil.rmtree(out, ignore_errors=True)
            JobSubmitter.create(back, output=out)
        except Exception as e:  # noqa
            res.append(V("valid-rejected", f"valid configuration (jobs listed as {want_names}) rejected: {type(e).__name__}: {e}"))
        return res

    def kind(self, c):
        return f"n={len(c[0])}"


INVALIDITIES = ("estimate-above-walltime-of-its-group", "unknown-blocker", "unknown-int-blocker-in-id-range", "duplicate-entry-verbatim", "estimate-above-default-walltime", "duplicate-name", "unknown-group", "duplicate-group", "max-nodes-differ",
                "max-nodes-second-unset", "poll-interval-first-differs",
                "poll-interval-differ", "hpc-type-differ", "estimate-above-walltime", "missing-estimate-size0",
                "none", "estimate-equals-walltime")


def inject(data, inv):
    """Mutate the JSON form of a valid configuration.  Returns False if not applicable."""
    jobs = data["jobs"]
    groups = data["submission_groups"]
    if inv == "unknown-blocker":
        jobs[0]["blocked_by"] = list(jobs[0].get("blocked_by", [])) + ["zzz"]
    elif inv == "unknown-int-blocker-in-id-range":
        # an integer that is some job's generated id but no job's NAME (that job has an explicit name)
        if len(jobs) < 2 or not jobs[1].get("name") or any((j.get("name") or str(j["job_id"])) == str(jobs[1]["job_id"]) for j in jobs):
            return False
        jobs[0]["blocked_by"] = list(jobs[0].get("blocked_by", [])) + [jobs[1]["job_id"]]
    elif inv == "duplicate-entry-verbatim":
        # the same job entry twice, field for field (a copy-paste in the file): still two jobs with one name
        jobs.append(json.loads(json.dumps(jobs[-1])))
    elif inv == "estimate-above-default-walltime":
        # the group leaves walltime unset (the model's default of 4 hours goes to sbatch --time); 241 minutes do not fit
        g = jobs[0].get("submission_group", "default")
        for gr in groups:
            if gr["name"] == g:
                gr["submitter_params"]["hpc_config"]["hpc"].pop("walltime", None)
        jobs[0]["estimated_run_minutes"] = 241
    elif inv == "duplicate-name":
        if len(jobs) < 2:
            return False
        jobs[1]["name"] = jobs[0].get("name") or str(jobs[0]["job_id"])
    elif inv == "unknown-group":
        jobs[-1]["submission_group"] = "nope"
    elif inv == "duplicate-group":
        groups.append(json.loads(json.dumps(groups[0])))
    elif inv == "max-nodes-second-unset":
        if len(groups) < 2:
            return False
        groups[0]["submitter_params"]["max_nodes"] = 4
        groups[1]["submitter_params"]["max_nodes"] = None
    elif inv == "poll-interval-first-differs":
        if len(groups) < 2:
            return False
        groups[0]["submitter_params"]["poll_interval"] = 3
    elif inv in ("max-nodes-differ", "poll-interval-differ", "hpc-type-differ"):
        if len(groups) < 2:
            return False
        sp = groups[1]["submitter_params"]
        if inv == "max-nodes-differ":
            sp["max_nodes"] = 3
        elif inv == "poll-interval-differ":
            sp["poll_interval"] = 7
        else:
            sp["hpc_config"] = {"hpc_type": "local", "job_prefix": "job", "hpc": {}}
    elif inv == "estimate-above-walltime-of-its-group":
        # the job's own group has a short walltime; another group (and a longer, valid job there) exists
        if len(groups) < 2 or len(jobs) < 2:
            return False
        groups[1]["submitter_params"]["hpc_config"]["hpc"]["walltime"] = "4:00:00"
        jobs[0]["submission_group"] = groups[0]["name"]
        jobs[0]["estimated_run_minutes"] = 3  # > 0:02:00
        jobs[1]["submission_group"] = groups[1]["name"]
        jobs[1]["estimated_run_minutes"] = 200  # valid in its own group, and the longest overall
    elif inv == "estimate-above-walltime":
        jobs[0]["estimated_run_minutes"] = 3
    elif inv == "estimate-equals-walltime":
        jobs[0]["estimated_run_minutes"] = 2
    elif inv == "missing-estimate-size0":
        g = jobs[0].get("submission_group", "default")
        for gr in groups:
            if gr["name"] == g:
                gr["submitter_params"]["per_node_batch_size"] = 0
        for j in jobs:
            j["estimated_run_minutes"] = 1
        jobs[0]["estimated_run_minutes"] = None
    elif inv == "none":
        pass
    return True


@register("c17_invalid")
class C17Invalid(EnumCheck):
    """Valid configurations x single injected invalidity, through the real `jade submit-jobs`."""

    def cases(self):
        out = []
        for c in d17_cases(2):
            names, bb, style, opt, k, life = c
            if opt not in ("none", "all", "group") or life is not None:
                continue
            for inv in INVALIDITIES:
                out.append((c, inv))
        # three-job slice with unnamed jobs
        for bb in S.dags(3)[::4]:
            for k in (1, 2):
                for inv in INVALIDITIES:
                    out.append((((None, None, None), bb, "int", "none", k, None), inv))
        return out

    def evaluate(self, case):
        c, inv = case
        cfg, eff = build_d17(c)
        import io

        buf = io.StringIO()
        cfg.dump(filename=None, stream=buf)
        data = json.loads(buf.getvalue())
        if not inject(data, inv):
            return []
        r = run_login_only(json.dumps(data, indent=1))
        res = []
        valid = inv in ("none", "estimate-equals-walltime")
        if valid:
            if r["status"] == "crashed" or r["code"] not in (0, None):
                res.append(V("valid-rejected", f"valid configuration ({inv}) rejected: {r['exc']} exit={r['code']}", inv))
            elif not r["sbatch"]:
                res.append(V("valid-no-round", f"valid configuration ({inv}): first round submitted nothing", inv))
        else:
            if r["sbatch"] or r["launches"]:
                res.append(V("invalid-submitted", f"configuration with {inv} reached the HPC: sbatch {r['sbatch']}", inv))
            if r["status"] != "crashed" or "InvalidConfiguration" not in (r["exc"] or ""):
                res.append(V("invalid-not-rejected", f"configuration with {inv} was not rejected with InvalidConfiguration: "
                                                     f"status={r['status']} exc={r['exc']} exit={r['code']}", inv))
        return res

    def kind(self, c):
        return c[1]

    def nontrivial(self, c):
        return c[1] != "none"


# =============================================================================== C19
TOKENS = ["plain", "'single quoted'", '"double quoted"', "esc\\ aped", "''", "$HOME", "*", ";", "|", "#x",
          "éü", '--k="v w"', "'two  spaces'", '"tab\there"', "{}", "'{print $1}'", "${HOME}", "%s", "a=b", "\\\\", "~", "&&", ">out", "`id`", "$(id)"]
NAME_ALPHABET = [None, "J", "a_b", "a-b", "a.b", "007", "Job.1-x_2"]
PROBE_DIR = os.path.join(boot.WORK, "probes")


def build_probes():
    os.makedirs(PROBE_DIR, exist_ok=True)
    exe = os.path.join(boot.WORK, "probe")
    src = os.path.join(os.path.dirname(__file__), "probe.c")
    ok = False
    tmp = exe + ".%d" % os.getpid()
    try:
        r = subprocess.run(["clang", "-O1", "-o", tmp, src], capture_output=True)
        ok = r.returncode == 0
    except OSError:
        ok = False
    if not ok:
        shutil.copyfile(os.path.join(os.path.dirname(__file__), "probe.py"), tmp)
        os.chmod(tmp, 0o755)
    os.replace(tmp, exe)
    for code in range(256):
        p = os.path.join(PROBE_DIR, f"p{code}")
        if not os.path.lexists(p):
            try:
                os.symlink(exe, p)
            except FileExistsError:
                pass
    return ok


def _unhex(s):
    return None if s == "-" else bytes.fromhex(s).decode("utf-8", "surrogateescape")


@register("c19_launch")
class C19Launch(EnumCheck):
    """Batches of job specs run by the real JobRunner with real probe children."""

    BATCH = 24

    def specs(self):
        specs = []
        maxlen = 3
        i = 0
        for n in range(1, maxlen + 1):
            for toks in itertools.product(range(len(TOKENS)), repeat=n):
                for sep in ((" ",) if (n == 1 or (self.tier == "quick" and n > 2)) else (" ", " \t ")):
                    fl = i % 4
                    specs.append(dict(tokens=[TOKENS[t] for t in toks], sep=sep, ajn=bool(fl & 1),
                                      aod=bool(fl & 2), code=(i * 7) % 256, name=None))
                    i += 1
        for code in range(256):
            specs.append(dict(tokens=["plain"], sep=" ", ajn=False, aod=False, code=code, name=None))
        for nm in NAME_ALPHABET:
            for fl in range(4):
                specs.append(dict(tokens=["x", "'y z'"], sep=" ", ajn=bool(fl & 1), aod=bool(fl & 2),
                                  code=fl, name=(nm + ["", "_", "-", "."][fl]) if nm else None))
        for fl in range(4):
            specs.append(dict(tokens=[], sep=" ", ajn=bool(fl & 1), aod=bool(fl & 2), code=3, name=None))
        return specs

    def cases(self):
        sp = self.specs()
        out = [sp[i:i + self.BATCH] for i in range(0, len(sp), self.BATCH)]
        # batches whose config file lists the jobs in another order than their ids (a batch built over several passes,
        # a shuffled configuration): unnamed jobs are still called by their job_id
        for order in ("reverse", "rotate", "swap-first-two"):
            for names in ((None,) * 4, (None, "named", None, None)):
                out.append([dict(tokens=["x", str(k)], sep=" ", ajn=True, aod=bool(k & 1), code=10 + k, name=nm, order=order)
                            for k, nm in enumerate(names)])
        return out

    def weight(self, c):
        return len(c)

    def begin(self):
        self.base = scratch("c19")
        if not os.path.exists(os.path.join(PROBE_DIR, "p255")):
            build_probes()
        self.saved = {k: os.environ.get(k) for k in ("SLURM_JOB_ID", "SLURM_NODEID", "SLURM_CPUS_ON_NODE", "LOCAL_SCRATCH")}
        os.makedirs(os.path.join(self.base, "scratch"), exist_ok=True)
        self.saved.update({k: os.environ.get(k) for k in ("JADE_JOB_NAME", "JADE_RUNTIME_OUTPUT")})
        # the runner itself may have been started inside another jade job: inherited values must not win
        os.environ.update(SLURM_JOB_ID="4711", SLURM_NODEID="0", SLURM_CPUS_ON_NODE="8",
                          LOCAL_SCRATCH=os.path.join(self.base, "scratch"),
                          JADE_JOB_NAME="outer_job", JADE_RUNTIME_OUTPUT="/outer/output")

    def end(self):
        for k, v in self.saved.items():
            if v is None:
                os.environ.pop(k, None)
            else:
                os.environ[k] = v

    def evaluate(self, batch):
        from jade.extensions.generic_command import GenericCommandConfiguration, GenericCommandParameters
        from jade.jobs.job_runner import JobRunner
        from jade.jobs.results_aggregator import ResultsAggregator
        from jade.models import HpcConfig, SubmissionGroup, SubmitterParams

        out = os.path.join(self.base, "out")
        shutil.rmtree(out, ignore_errors=True)
        os.makedirs(out)
        cfg = GenericCommandConfiguration()
        expect = []
        for i, s in enumerate(batch):
            probe = os.path.join(PROBE_DIR, f"p{s['code']}")
            cmd = probe + (s["sep"] if s["tokens"] else "") + s["sep"].join(s["tokens"])
            kw = dict(command=cmd, append_job_name=s["ajn"], append_output_dir=s["aod"])
            if s["name"] is not None:
                kw["name"] = s["name"]
            p = GenericCommandParameters(**kw)
            cfg.add_job(p)
            expect.append((p.name, cmd, s))
        cfg.append_submission_group(SubmissionGroup(name="default", submitter_params=SubmitterParams(
            hpc_config=HpcConfig(hpc_type="slurm", hpc={"account": "a"}), poll_interval=0,
            generate_reports=False, resource_monitor_type="none", resource_monitor_interval=None)))
        ResultsAggregator.create(out)
        # the node reads its batch from the file the submitter wrote (config_batch_N.json)
        cfile = os.path.join(out, "config_batch_1.json")
        cfg.dump(cfile)
        order = batch[0].get("order")
        if order:
            with open(cfile) as f:
                data = json.load(f)
            jl = data["jobs"]
            data["jobs"] = {"reverse": jl[::-1], "rotate": jl[1:] + jl[:1], "swap-first-two": jl[1::-1] + jl[2:]}[order]
            with open(cfile, "w") as f:
                json.dump(data, f, indent=1)
        from jade.jobs.job_configuration_factory import create_config_from_file

        runner = JobRunner(create_config_from_file(cfile), out, batch_id=1)  # as `jade-internal run-jobs` does
        runner.run_jobs(distributed_submitter=False, verbose=False, num_parallel_processes_per_node=8)
        agg = ResultsAggregator.load(out)
        agg.process_results()
        rows = {}
        for r in ResultsAggregator.list_results(out):
            rows.setdefault(r.name, []).append(r)
        res = []
        for name, cmd, s in expect:
            want = shlex.split(cmd)
            if s["ajn"]:
                want.append(f"--jade-job-name={name}")
            if s["aod"]:
                want.append(f"--jade-runtime-output={out}")
            so = os.path.join(out, "job-stdio", f"{name}.o")
            se = os.path.join(out, "job-stdio", f"{name}.e")
            try:
                with open(so) as f:
                    lines = f.read().split("\n")
                with open(se) as f:
                    etext = f.read()
            except OSError as e:
                res.append(V("stdio-missing", f"job {name} ({cmd!r}): {e}"))
                continue
            argv = [_unhex(l[2:]) for l in lines if l.startswith("A:")]
            env = {l[2:].split("=", 1)[0]: _unhex(l[2:].split("=", 1)[1]) for l in lines if l.startswith("E:")}
            if argv != want:
                res.append(V("argv", f"job {name}: command {cmd!r} (ajn={s['ajn']}, aod={s['aod']}) ran as {argv}, POSIX split gives {want}"))
            if env.get("JADE_RUNTIME_OUTPUT") != out or env.get("JADE_JOB_NAME") != name:
                res.append(V("env", f"job {name}: env {env}, expected JADE_RUNTIME_OUTPUT={out} JADE_JOB_NAME={name}"))
            if etext != f"ERR:{name}\n":
                res.append(V("stderr-file", f"job {name}: stderr file holds {etext!r}"))
            rr = rows.get(name, [])
            if len(rr) != 1:
                res.append(V("row-count", f"job {name}: {len(rr)} result rows"))
                continue
            r = rr[0]
            if r.return_code != s["code"]:
                res.append(V("exit-code", f"job {name}: real exit code {s['code']}, recorded {r.return_code}"))
            if r.status != "finished":
                res.append(V("status", f"job {name}: status {r.status}"))
            if str(r.hpc_job_id) != "4711":
                res.append(V("hpc-job-id", f"job {name}: hpc_job_id {r.hpc_job_id!r} != SLURM_JOB_ID 4711"))
        extra = set(rows) - {e[0] for e in expect}
        if extra:
            res.append(V("extra-rows", f"rows for unknown jobs {sorted(extra)}"))
        return res

    def kind(self, c):
        return "batch"

    def show(self, c):
        return c[:2]
