"""The checks: one function per property (tier -> exit code).  DESIGN section 3."""

import itertools
import json
import os
import sys
import time

from . import boot
from . import scen as S
from .run import explore_check, run_task, finish, run_pool
from .engine import Explorer

CHECKS = {}


def check(name):
    def deco(f):
        CHECKS[name] = f
        return f

    return deco


REC = dict(name="rec", argv=["jade", "try-submit-jobs", "{out}"], host="login2", guard="idle_incomplete")


def rec_actor(n_jobs, host="login2"):
    a = dict(REC)
    a["repeat"] = n_jobs + 2
    a["host"] = host
    return a


COMMON_ASSUMPTIONS = [
    "simulated SLURM (jmc/sim.py) is the trusted base: single-node batches, sbatch/squeue/scancel answered as documented in DESIGN 1.6",
    "sync level L0: a critical section under the cluster/results lock is one transition (Lipton reduction; lock discipline itself is checked by C08/C10)",
    "small-scope hypothesis: <= 4 jobs except the representative graphs; no random generation",
    "virtual clock is constant within an execution; lock timeouts are modelled at global quiescence only",
    "filelock behaviour never_break (a marker blocks until removed)",
]


# ------------------------------------------------------------------------------ grids
def group_assignments(n, kmax=2):
    """Assignments of n jobs to <= kmax groups up to renaming (restricted growth strings)."""
    out = []

    def rec(prefix, used):
        if len(prefix) == n:
            out.append(tuple(prefix))
            return
        for g in range(min(used + 1, kmax)):
            rec(prefix + [g], max(used, g + 1))

    rec([], 0)
    return out


def param_grid(n, try_adds=(True, False), max_nodes=(1, 2, None), sizes=None, time_based=True,
               caps=(2, 3)):
    """(tag, group kwargs, estimates or None) for n jobs."""
    out = []
    sizes = sizes or range(1, n + 1)
    for ta in try_adds:
        for mx in max_nodes:
            for sz in sizes:
                out.append((f"sz{sz}-ta{int(ta)}-mx{mx}", dict(size=sz, try_add=ta, max_nodes=mx), None))
            if time_based:
                for est in itertools.product((1, 2), repeat=n):
                    for cap in caps:
                        out.append((f"tb{cap}-e{''.join(map(str, est))}-ta{int(ta)}-mx{mx}",
                                    dict(time_based=True, walltime=f"0:0{cap}:00", nproc=1, try_add=ta,
                                         max_nodes=mx), est))
    return out


def mk_scen(bb, gkw, est=None, assign=None, exit_codes=None, cancel=None, actors=None, **kw):
    n = len(bb)
    gnames = ["default", "g2", "g3"]
    if assign is None:
        assign = (0,) * n
    ng = max(assign) + 1
    groups = [S.group(name=gnames[i], **gkw) for i in range(ng)]
    jobs = S.jobs_from_graph(bb, cancel=cancel, est=est, groups=[gnames[a] for a in assign])
    ec = {}
    if exit_codes:
        ec = {S.NAMES[i]: c for i, c in enumerate(exit_codes) if c}
    if actors is None:
        actors = [rec_actor(n)]
    return S.scenario(jobs, groups=groups, exit_codes=ec, actors=actors, **kw)


def input_grid_tasks(oracles, ns=(1, 2, 3), two_groups=True, budget=(0, 0), **gridkw):
    tasks = []
    for n in ns:
        for gi, bb in enumerate(S.dags(n)):
            for tag, gkw, est in param_grid(n, **gridkw):
                assigns = group_assignments(n, 2 if two_groups and n > 1 else 1)
                for a in assigns:
                    if max(a) > 0 and (gkw.get("max_nodes") == 2 or not gkw.get("try_add", True)):
                        continue  # reduced grid for two-group scenarios
                    sc = mk_scen(bb, gkw, est=est, assign=a)
                    tasks.append(dict(id=f"g{n}.{gi}-{tag}-a{''.join(map(str, a))}", scen=sc,
                                      oracles=["Obs"] + oracles, budget=budget,
                                      cls=_cls(bb, gkw, a)))
    return tasks


def _cls(bb, gkw, assign=(0,)):
    """Scenario class used in finding keys."""
    parts = []
    parts.append("time_based" if gkw.get("time_based") else "count_based")
    if gkw.get("try_add", True):
        parts.append("try_add")
    if any(j > i for i, l in enumerate(bb) for j in l):
        parts.append("blocked-listed-before-blocker")
    if max(assign) > 0:
        parts.append("2groups")
    return "+".join(parts)


REP_PARAMS = [
    ("sz1-mx2", dict(size=1, max_nodes=2)),
    ("sz2-mxN", dict(size=2, max_nodes=None)),
    ("sz1-ta0-mxN", dict(size=1, try_add=False, max_nodes=None)),
    ("sz2-mx1", dict(size=2, max_nodes=1)),
]


def rep_tasks(oracles, budget, graphs=None, params=None, exit_sets=None, cancel_sets=None, **kw):
    tasks = []
    graphs = graphs or list(S.REP)
    for g in graphs:
        bb = S.REP[g]
        n = len(bb)
        for tag, gkw in (params or REP_PARAMS):
            for ei, ec in enumerate(exit_sets(n) if exit_sets else [None]):
                for ci, cc in enumerate(cancel_sets(n) if cancel_sets else [None]):
                    sc = mk_scen(bb, gkw, exit_codes=ec, cancel=cc, **kw)
                    tasks.append(dict(id=f"{g}-{tag}-e{ei}-c{ci}-b{budget[0]}", scen=sc,
                                      oracles=["Obs"] + oracles, budget=budget,
                                      cls="rep+" + _cls(bb, gkw)))
    return tasks


S_RULE = ("each evaluation is one complete execution of the real JADE CLI entry points (login submit-jobs, "
          "one run-jobs per accepted sbatch, recovery try-submit-jobs) over the simulated scheduler, "
          "identified by its sequence of scheduler choices; enumerated depth-first by prefix replay up to "
          "the stated preemption budget with state caching; non-trivial = at least two virtual processes ran")


# ------------------------------------------------------------------------------ C01
@check("C01")
def c01(tier):
    if tier == "quick":
        tasks = input_grid_tasks(["C01"], ns=(1, 2, 3))
        tasks += rep_tasks(["C01"], (1, 0), graphs=["chain3", "fork", "join", "diamondr", "twocomp"])
        bounds = "inputs: G(1..3) x parameter grid at budget 0 (all job-finish orders); schedules: 5 REP graphs x 4 parameter sets at 1 preemption"
    else:
        tasks = input_grid_tasks(["C01"], ns=(1, 2, 3))
        tasks += input_grid_tasks(["C01"], ns=(4,), two_groups=False, max_nodes=(1, None), caps=(3,))
        tasks += rep_tasks(["C01"], (2, 0))
        bounds = "inputs: G(1..4) (n=4 reduced grid) at budget 0; schedules: all REP graphs x 4 parameter sets at 2 preemptions"
    return explore_check("C01", tier, tasks, S_RULE, COMMON_ASSUMPTIONS, dict(bounds=bounds))


# ------------------------------------------------------------------------------ replay / setup
def replay(prop, path):
    with open(path) as f:
        rp = json.load(f)
    kind = rp.get("kind", "schedule")
    if kind != "schedule":
        from . import modee

        return modee.replay(rp)
    task = rp["task"]
    from .run import _mk

    boot.quiet()
    boot.mute_stdio()
    try:
        ex = Explorer(_mk(task), budget=(99, 99), cache=False)
        x = ex.execute(tuple(rp["choices"]), expect=tuple(rp["labels"]), trace=True)
    finally:
        boot.unmute_stdio()
    for l in x.trace or []:
        print(l)
    for v in x.violations:
        print(f"VIOLATION property={v['property']} replay={path}")
        print("  " + v["message"])
    return 1 if x.violations else 0


def setup():
    os.makedirs(os.path.join(boot.VERIF, "work"), exist_ok=True)
    os.makedirs(os.path.join(boot.VERIF, "evidence"), exist_ok=True)
    os.makedirs(os.path.join(boot.VERIF, "replays"), exist_ok=True)
    return selftest()


def selftest():
    """Engine self-tests of DESIGN 1.8 on tiny scenarios."""
    t0 = time.monotonic()
    boot.quiet()
    boot.mute_stdio()
    ok = True
    msgs = []
    try:
        from .oracles import ORACLES

        sc = mk_scen(S.REP["pair"], dict(size=1, max_nodes=2))

        def mw():
            return S.make_world(sc, oracles=[ORACLES["Obs"]])

        # determinism: the default execution twice
        ex = Explorer(mw, budget=(1, 0))
        a = ex.execute((), trace=True)
        b = ex.execute((), trace=True)
        if a.labels != b.labels or a.trace != b.trace:
            ok = False
            msgs.append("default execution not deterministic")
        # abstraction test: same outcome set with and without caching
        e1 = Explorer(mw, budget=(1, 0), cache=True).run()
        e2 = Explorer(mw, budget=(1, 0), cache=False).run()
        if set(e1.outcomes) != set(e2.outcomes):
            ok = False
            msgs.append(f"caching changed the outcome set: {len(e1.outcomes)} vs {len(e2.outcomes)}")
        msgs.append(f"cache: {e1.stats()} nocache: {e2.stats()}")
    finally:
        boot.unmute_stdio()
    print(("SELFTEST OK " if ok else "SELFTEST FAILED ") + "; ".join(msgs) + f" ({time.monotonic() - t0:.1f}s)")
    return 0 if ok else 2
