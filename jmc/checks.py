"""The checks: one function per property (tier -> exit code).  DESIGN section 3."""

import itertools
import json
import os
import sys
import time

from . import boot
from . import scen as S
from .run import explore_check, run_task, finish, run_pool
from .engine import Explorer

CHECKS = {}


def check(name):
    def deco(f):
        CHECKS[name] = f
        return f

    return deco


REC = dict(name="rec", argv=["jade", "try-submit-jobs", "{out}"], host="login2", guard="idle_incomplete")


def rec_actor(n_jobs, host="login2"):
    a = dict(REC)
    a["repeat"] = n_jobs + 2
    a["host"] = host
    return a


COMMON_ASSUMPTIONS = [
    "simulated SLURM (jmc/sim.py) is the trusted base: single-node batches, sbatch/squeue/scancel answered as documented in DESIGN 1.6",
    "sync level L0: a critical section under the cluster/results lock is one transition (Lipton reduction; lock discipline itself is checked by C08/C10)",
    "small-scope hypothesis: <= 4 jobs except the representative graphs; no random generation",
    "virtual clock is constant within an execution; lock timeouts are modelled at global quiescence only",
    "filelock behaviour never_break (a marker blocks until removed)",
]


# ------------------------------------------------------------------------------ grids
def group_assignments(n, kmax=2):
    """Assignments of n jobs to <= kmax groups up to renaming (restricted growth strings)."""
    out = []

    def rec(prefix, used):
        if len(prefix) == n:
            out.append(tuple(prefix))
            return
        for g in range(min(used + 1, kmax)):
            rec(prefix + [g], max(used, g + 1))

    rec([], 0)
    return out


def param_grid(n, try_adds=(True, False), max_nodes=(1, 2, None), sizes=None, time_based=True,
               caps=(2, 3)):
    """(tag, group kwargs, estimates or None) for n jobs."""
    out = []
    sizes = sizes or range(1, n + 1)
    for ta in try_adds:
        for mx in max_nodes:
            for sz in sizes:
                out.append((f"sz{sz}-ta{int(ta)}-mx{mx}", dict(size=sz, try_add=ta, max_nodes=mx), None))
            if time_based:
                for est in itertools.product((1, 2), repeat=n):
                    for cap in caps:
                        out.append((f"tb{cap}-e{''.join(map(str, est))}-ta{int(ta)}-mx{mx}",
                                    dict(time_based=True, walltime=f"0:0{cap}:00", nproc=1, try_add=ta,
                                         max_nodes=mx), est))
    return out


def mk_scen(bb, gkw, est=None, assign=None, exit_codes=None, cancel=None, actors=None, gnames=None, **kw):
    n = len(bb)
    gnames = gnames or ["default", "g2", "g3"]
    if assign is None:
        assign = (0,) * n
    ng = max(assign) + 1
    groups = [S.group(name=gnames[i], **gkw) for i in range(ng)]
    jobs = S.jobs_from_graph(bb, cancel=cancel, est=est, groups=[gnames[a] for a in assign])
    ec = {}
    if exit_codes:
        ec = {S.NAMES[i]: c for i, c in enumerate(exit_codes) if c}
    if actors is None:
        actors = [rec_actor(n)]
    return S.scenario(jobs, groups=groups, exit_codes=ec, actors=actors, **kw)


def input_grid_tasks(oracles, ns=(1, 2, 3), two_groups=True, budget=(0, 0), **gridkw):
    tasks = []
    for n in ns:
        for gi, bb in enumerate(S.dags(n)):
            for tag, gkw, est in param_grid(n, **gridkw):
                assigns = group_assignments(n, 2 if two_groups and n > 1 else 1)
                for a in assigns:
                    if max(a) > 0 and (gkw.get("max_nodes") == 2 or not gkw.get("try_add", True)):
                        continue  # reduced grid for two-group scenarios
                    sc = mk_scen(bb, gkw, est=est, assign=a)
                    tasks.append(dict(id=f"g{n}.{gi}-{tag}-a{''.join(map(str, a))}", scen=sc,
                                      oracles=["Obs"] + oracles, budget=budget,
                                      cls=_cls(bb, gkw, a)))
    return tasks


def _cls(bb, gkw, assign=(0,)):
    """Scenario class used in finding keys."""
    parts = []
    parts.append("time_based" if gkw.get("time_based") else "count_based")
    if gkw.get("try_add", True):
        parts.append("try_add")
    if any(j > i for i, l in enumerate(bb) for j in l):
        parts.append("blocked-listed-before-blocker")
    if max(assign) > 0:
        parts.append("2groups")
    return "+".join(parts)


def shard(tasks, n):
    """Split each task's search over n workers by first-level alternatives (own caches: redundant, sound)."""
    out = []
    for t in tasks:
        for k in range(n):
            t2 = dict(t)
            t2["shard"] = (k, n)
            t2["id"] = f"{t['id']}#{k}/{n}"
            out.append(t2)
    return out


REP_PARAMS = [
    ("sz1-mx2", dict(size=1, max_nodes=2)),
    ("sz2-mxN", dict(size=2, max_nodes=None)),
    ("sz1-ta0-mxN", dict(size=1, try_add=False, max_nodes=None)),
    ("sz2-mx1", dict(size=2, max_nodes=1)),
]


def rep_tasks(oracles, budget, graphs=None, params=None, exit_sets=None, cancel_sets=None, **kw):
    tasks = []
    graphs = graphs or [g for g in S.REP if g not in ("cancelfan7", "indep4", "wide5", "fan5", "joinbacklog5", "indep11")]  # heavy ones only when named
    for g in graphs:
        bb = S.REP[g]
        n = len(bb)
        for tag, gkw in (params or REP_PARAMS):
            for ei, ec in enumerate(exit_sets(n) if exit_sets else [None]):
                for ci, cc in enumerate(cancel_sets(n) if cancel_sets else [None]):
                    sc = mk_scen(bb, gkw, exit_codes=ec, cancel=cc, **kw)
                    tasks.append(dict(id=f"{g}-{tag}-e{ei}-c{ci}-b{budget[0]}", scen=sc,
                                      oracles=["Obs"] + oracles, budget=budget,
                                      cls="rep+" + _cls(bb, gkw)))
    return tasks


def manual_submitter_tasks(oracles, budget, graphs):
    """--no-distributed-submitter: nodes never run try-submit-jobs; the user runs it by hand, at any time,
    as often as needed."""
    tasks = []
    for g in graphs:
        bb = S.REP[g]
        n = len(bb)
        for tag, gkw in (("sz1-mx2", dict(size=1, max_nodes=2, distributed=False)), ("sz2-mxN", dict(size=2, max_nodes=None, distributed=False))):
            actors = [dict(name="usr", argv=["jade", "try-submit-jobs", "{out}"], host="login1", guard="submitted_incomplete", repeat=n + 2),
                      rec_actor(n)]
            sc = mk_scen(bb, gkw, actors=actors, free_at_poll=True)
            tasks.append(dict(id=f"manual-{g}-{tag}-b{budget[0]}", scen=sc, oracles=["Obs"] + oracles, budget=budget,
                              cls="no-distributed-submitter+" + _cls(bb, gkw)))
    return tasks


def user_round_tasks(oracles, budget, graphs, params=None, heavy_too=False):
    """A user runs try-submit-jobs by hand at ANY point of the submission (not only when it is idle),
    from the submitting host and from another host."""
    tasks = []
    for g in graphs:
        bb = S.REP[g]
        n = len(bb)
        for tag, gkw in (params or [("sz1-mx2", dict(size=1, max_nodes=2)), ("sz1-mxN", dict(size=1, max_nodes=None))]):
            for host in ("login1", "login7"):
                actors = [dict(name="usr", argv=["jade", "try-submit-jobs", "{out}"], host=host, guard="submitted"),
                          rec_actor(n)]
                # at budget 0 leaving a polling node is free (otherwise nothing could overlap with the user's round);
                # with a preemption budget the overlap is paid from it
                sc = mk_scen(bb, gkw, actors=actors, free_at_poll=(budget[0] == 0))
                t = dict(id=f"usr-{g}-{tag}-{host}-b{budget[0]}", scen=sc, oracles=["Obs"] + oracles,
                         budget=budget, cls="user-round+" + _cls(bb, gkw))
                heavy = gkw.get("max_nodes") is None and sum(1 for l in bb if not l) >= 3
                if heavy and not heavy_too:
                    continue  # 3+ batches in flight with a free-start actor and free-at-poll: thorough only
                if heavy or (budget[0] >= 1 and len(bb) >= 2 and gkw.get("max_nodes") is None):
                    t["weight"] = 6
                tasks.append(t)
    return tasks


def l2_reader_race_tasks(oracles, tier, hooks=None, prefix="l2race"):
    """A user's `show-status -n` (a reader that only takes the cluster lock for a moment) started at ANY point, explored
    at sync level L2: lock files, `.bk` files and the crash marker appear and disappear between two file operations of
    another process (e.g. between a directory listing and the stat of each entry).  Quick: 2 preemptions by or of the
    reader on the one-job submission; thorough: 2 unrestricted preemptions, 3 by or of the reader, and 2 by or of the reader
    on two independent jobs; sharded over the workers."""
    tasks = []
    # (graph, preemptions, shards, restricted to preemptions by or of the reader?)
    plan = [("single", 2, 16, True)] if tier == "quick" else [("single", 2, 16, False), ("single", 3, 32, True), ("pair", 2, 32, True)]
    for g, bud, nshard, focus in plan:
        bb = S.REP[g]
        # quick: the reader starts once a first result exists (the rounds that collect, hand over and complete);
        # thorough: at any point from the creation of the submission
        actors = [dict(name="usr", argv=["jade", "show-status", "-o", "{out}", "-n"], host="login7",
                       guard="has_result" if tier == "quick" else "submitted"),
                  rec_actor(len(bb))]
        kw = dict(hooks=hooks) if hooks else {}
        sc = mk_scen(bb, dict(size=1, max_nodes=None), actors=actors, **kw)
        sc["level"] = 2
        if focus:
            sc["preempt_focus"] = ["usr"]  # only preemptions by or of the reader (the other overlaps: L0/L1 scenarios)
        t = dict(id=f"{prefix}-{g}-showstatus-L2-b{bud}{'-focus' if focus else ''}", scen=sc, oracles=["Obs"] + oracles, budget=(bud, 0),
                 cls="reader-race-L2+" + _cls(bb, dict(size=1, max_nodes=None)))
        tasks += shard([t], nshard)
    return tasks


S_RULE = ("each evaluation is one complete execution of the real JADE CLI entry points (login submit-jobs, "
          "one run-jobs per accepted sbatch, recovery try-submit-jobs) over the simulated scheduler, "
          "identified by its sequence of scheduler choices; enumerated depth-first by prefix replay up to "
          "the stated preemption budget with state caching; non-trivial = at least two virtual processes ran")


# ------------------------------------------------------------------------------ C01
def c01_refusal_tasks(tier):
    """A batch refused by the scheduler consumes its batch number: later rounds must not reuse it."""
    ts = rep_tasks(["C01"], (0, 1) if tier == "quick" else (0, 2), graphs=["twocomp", "fork", "diamond", "wide5"],
                   params=[("sz1-mx2", dict(size=1, max_nodes=2)), ("sz1-mx1", dict(size=1, max_nodes=1)), ("sz1-mxN", dict(size=1, max_nodes=None))])
    for t in ts:
        t["fault"] = dict(plan="c12", kill_nodes=False)
        t["id"] += "-refusals"
        t["cls"] = "refused-batch+" + t["cls"]
    return ts


@check("C01")
def c01(tier):
    if tier == "quick":
        tasks = input_grid_tasks(["C01"], ns=(1, 2, 3))
        tasks += rep_tasks(["C01"], (1, 0), graphs=["chain3", "fork", "join", "diamondr", "twocomp", "indep3"])
        heavy = shard(rep_tasks(["C01"], (1, 0), graphs=["indep4"]), 4)
        for t in heavy:
            t["weight"] = 10
        tasks += heavy
        tasks += user_round_tasks(["C01"], (0, 0), ["indep3", "fork"])
        tasks += user_round_tasks(["C01"], (1, 0), ["chain2"], params=[("sz1-mxN", dict(size=1, max_nodes=None))])
        tasks += outcome_tasks(["C01"], ns=(2, 3), params=[C03_PARAMS[0], C03_PARAMS[1], C03_PARAMS[4]])
        tasks += c01_refusal_tasks(tier)
        tasks += rep_tasks(["C01"], (0, 0), graphs=["indep11"], params=[("sz1-mx2", dict(size=1, max_nodes=2))], finish_orders="default")
        bounds = "11 batches (two-digit batch numbers); inputs: G(1..3) x parameter grid at budget 0 (all job-finish orders); schedules: 7 REP graphs x 4 parameter sets at 1 preemption; a user-run try-submit-jobs from the login host and from another host starting at any point (free start) on 2 graphs, and with 1 preemption on the 2-job chain; G(2..3) x exit codes x cancel flags x 3 parameter sets at budget 0; any one batch refused by the scheduler on 4 graphs (batch numbering)"
    else:
        tasks = input_grid_tasks(["C01"], ns=(1, 2, 3))
        tasks += input_grid_tasks(["C01"], ns=(4,), two_groups=False, max_nodes=(1, None), caps=(3,))
        tasks += rep_tasks(["C01"], (2, 0))
        tasks += user_round_tasks(["C01"], (1, 0), ["indep3", "fork", "twocomp"], heavy_too=True)
        tasks += outcome_tasks(["C01"], ns=(2, 3), params=C03_PARAMS[:5])
        tasks += c01_refusal_tasks(tier)
        tasks += rep_tasks(["C01"], (1, 0), graphs=["chain3", "fork", "diamond", "chain4"], exit_sets=fail_sets, cancel_sets=flag_sets)
        bounds = "inputs: G(1..4) (n=4 reduced grid) at budget 0; schedules: all REP graphs x 4 parameter sets at 2 preemptions"
    return explore_check("C01", tier, tasks, S_RULE, COMMON_ASSUMPTIONS, dict(bounds=bounds))


# ------------------------------------------------------------------------------ replay / setup
def replay(prop, path):
    with open(path) as f:
        rp = json.load(f)
    kind = rp.get("kind", "schedule")
    if kind != "schedule":
        from . import modee

        return modee.replay(rp)
    task = rp["task"]
    from .run import _mk

    boot.quiet()
    boot.mute_stdio()
    try:
        ex = Explorer(_mk(task), budget=(99, 99), cache=False)
        x = ex.execute(tuple(rp["choices"]), expect=tuple(rp["labels"]), trace=True)
    finally:
        boot.unmute_stdio()
    for l in x.trace or []:
        print(l)
    for v in x.violations:
        print(f"VIOLATION property={v['property']} replay={path}")
        print("  " + v["message"])
    return 1 if x.violations else 0


def setup():
    os.makedirs(os.path.join(boot.VERIF, "work"), exist_ok=True)
    os.makedirs(os.path.join(boot.VERIF, "evidence"), exist_ok=True)
    os.makedirs(os.path.join(boot.VERIF, "replays"), exist_ok=True)
    from . import echecks2

    compiled = echecks2.build_probes()
    print("probe:", "compiled with clang" if compiled else "python fallback")
    return selftest()


def selftest():
    """Engine self-tests of DESIGN 1.8 on tiny scenarios."""
    t0 = time.monotonic()
    boot.quiet()
    boot.mute_stdio()
    ok = True
    msgs = []
    try:
        from .oracles import ORACLES

        sc = mk_scen(S.REP["pair"], dict(size=1, max_nodes=2))

        def mw():
            return S.make_world(sc, oracles=[ORACLES["Obs"]])

        # determinism: the default execution twice
        ex = Explorer(mw, budget=(1, 0))
        a = ex.execute((), trace=True)
        b = ex.execute((), trace=True)
        if a.labels != b.labels or a.trace != b.trace:
            ok = False
            msgs.append("default execution not deterministic")
        # abstraction test: same outcome set with and without caching
        e1 = Explorer(mw, budget=(1, 0), cache=True).run()
        e2 = Explorer(mw, budget=(1, 0), cache=False).run()
        if set(e1.outcomes) != set(e2.outcomes):
            ok = False
            msgs.append(f"caching changed the outcome set: {len(e1.outcomes)} vs {len(e2.outcomes)}")
        msgs.append(f"cache: {e1.stats()} nocache: {e2.stats()}")
    finally:
        boot.unmute_stdio()
    print(("SELFTEST OK " if ok else "SELFTEST FAILED ") + "; ".join(msgs) + f" ({time.monotonic() - t0:.1f}s)")
    return 0 if ok else 2


# ------------------------------------------------------------------------------ C02..C06
def bits(n):
    return list(itertools.product((0, 1), repeat=n))


def local_tasks(oracles, ns=(1, 2, 3), exits=False, flags=False, stutter=1):
    tasks = []
    for n in ns:
        for gi, bb in enumerate(S.dags(n)):
            blocked = [i for i in range(n) if bb[i]]
            for nproc in (1, 2):
                for ec in (bits(n) if exits else [None]):
                    for fl in (bits(len(blocked)) if flags else [None]):
                        cancel = None
                        if fl is not None:
                            cancel = [0] * n
                            for i, b in zip(blocked, fl):
                                cancel[i] = b
                        sc = mk_scen(bb, dict(nproc=nproc), exit_codes=ec, cancel=cancel, mode="local",
                                     actors=[], stutter=stutter)
                        tasks.append(dict(id=f"local-g{n}.{gi}-q{nproc}-e{ec}-f{fl}", scen=sc,
                                          oracles=["Obs"] + oracles, budget=(0, 0), cls="local"))
    return tasks


def backlog_tasks(oracles):
    """A flagged (and an unflagged) job with two blockers queued behind a backlog of unblocked jobs; one blocker
    fails while the other is still running (2 processes, one queue; local and one batch)."""
    tasks = []
    for flag in (0, 1):
        for ec in ((1, 0, 0, 0, 0), (0, 1, 0, 0, 0), (1, 1, 0, 0, 0)):
            for tag, gkw, kw in (("one-batch-q2", dict(size=5, nproc=2), {}), ("local-q2", dict(nproc=2), dict(mode="local", actors=[]))):
                sc = mk_scen(S.REP["joinbacklog5"], gkw, exit_codes=ec, cancel=(0, 0, 0, 0, flag), stutter=1, **kw)
                tasks.append(dict(id=f"backlog-{tag}-e{''.join(map(str, ec))}-f{flag}", scen=sc, oracles=["Obs"] + oracles, budget=(0, 0), cls="queue-backlog"))
    return tasks


def c02_extra(tier):
    """Failures inside one node queue (which blockers are removed when) and commands that cannot be spawned."""
    tasks = local_tasks(["C02"], ns=(3,) if tier == "quick" else (3, 4), exits=True)
    tasks += backlog_tasks(["C02"])
    for gi, bb in enumerate(S.dags(3)):
        if not any(bb):
            continue
        for ec in bits(3):
            if not any(ec):
                continue
            for nproc in (1, 2):
                sc = mk_scen(bb, dict(size=3, nproc=nproc), exit_codes=ec)
                tasks.append(dict(id=f"onebatch-g3.{gi}-e{''.join(map(str, ec))}-q{nproc}", scen=sc, oracles=["Obs", "C02"], budget=(0, 0), cls="one-batch+failures"))
    for g in ("chain2", "fork", "join", "chain3"):
        bb = S.REP[g]
        for tag, gkw, mode in (("one-batch", dict(size=8, nproc=2), "hpc"), ("sz1", dict(size=1), "hpc"), ("local", dict(nproc=2), "local")):
            for victim in range(len(bb)):
                if not any(victim in l for l in bb):
                    continue  # only jobs that block somebody
                kw = dict(mode="local", actors=[]) if mode == "local" else {}
                sc = mk_scen(bb, gkw, **kw)
                sc["spawn_fail"] = [S.NAMES[victim]]
                tasks.append(dict(id=f"spawnfail-{g}-{tag}-{S.NAMES[victim]}", scen=sc, oracles=["Obs", "C02"], budget=(0, 0), cls="spawn-failure"))
    # the result of a finished blocker cannot be recorded (lock timeout at the append): nothing that waits for it may start
    for g in ("chain2", "chain3", "fork", "join"):
        bb = S.REP[g]
        for tag, gkw in (("one-batch-q1", dict(size=8, nproc=1)), ("one-batch-q2", dict(size=8, nproc=2))):
            sc = mk_scen(bb, gkw)
            tasks.append(dict(id=f"c02-{g}-{tag}-append-lock-timeout", scen=sc, oracles=["Obs", "C02"], budget=(0, 1),
                              fault=dict(plan="joblock"), cls="fault-at-result-append"))
    # the outcome of a job canceled by a SUBMITTER must be on disk before anything that waits for it is handed over:
    # a node round killed / hit by EDQUOT at any L2 point, chain with a failing job, a flagged and an unflagged dependent
    for g, ec, cc in (("chain3", (1, 0, 0), (0, 1, 0)), ("fork", (1, 0, 0), (0, 1, 0))):
        bb = S.REP[g]
        actors = [dict(name="rec", argv=["jade", "try-submit-jobs", "{out}"], host="login2", guard="idle_incomplete", repeat=2)]
        sc = mk_scen(bb, dict(size=1, max_nodes=2), actors=actors, level=2, free_at_poll=True, exit_codes=ec, cancel=cc)
        tasks.append(dict(id=f"c02-{g}-fail-cancel-node-round-fault", scen=sc, oracles=["Obs", "C02"], budget=(0, 1),
                          fault=dict(plan="c11", victims=["n"], kinds=["kill", "write"]), cls="fault-in-round+failure+cancel-flag"))
    return tasks


@check("C02")
def c02(tier):
    some_fail = lambda n: [None, (1,) + (0,) * (n - 1), (0,) * (n - 1) + (1,)] if n > 1 else [None, (1,)]
    flags = lambda n: [None, (1,) * n]
    if tier == "quick":
        tasks = input_grid_tasks(["C02"], ns=(1, 2, 3))
        tasks += rep_tasks(["C02"], (1, 0), graphs=["chain3", "chain3r", "fork", "join", "diamond", "diamondr"],
                           exit_sets=some_fail, cancel_sets=flags)
        tasks += local_tasks(["C02"])
        tasks += c02_extra(tier)
        tasks += resub_slice_tasks(["C02"], tier, "c02")
        bounds = "a lock timeout at any result append of a node (one batch, processes 1-2); a node round killed / failing with EDQUOT at any L2 point after a submitter-level cancel (failing job, flagged + unflagged dependents); resubmission histories on every 3-job DAG; failures inside one queue (local mode and one batch, all finish orders) on G(3); unspawnable commands; G(1..3) x parameter grid at budget 0; 6 REP graphs x 4 parameter sets x exit codes x flags at 1 preemption; local mode on G(1..3) x processes 1-2"
    else:
        tasks = input_grid_tasks(["C02"], ns=(1, 2, 3))
        tasks += input_grid_tasks(["C02"], ns=(4,), two_groups=False, max_nodes=(1, None), caps=(3,))
        tasks += rep_tasks(["C02"], (2, 0), exit_sets=some_fail, cancel_sets=flags)
        tasks += local_tasks(["C02"], ns=(1, 2, 3, 4))
        tasks += c02_extra(tier)
        tasks += resub_slice_tasks(["C02"], tier, "c02")
        bounds = "resubmission histories on every 3-job DAG; failures inside one queue on G(3..4); unspawnable commands; G(1..4) at budget 0; all REP graphs at 2 preemptions; local mode on G(1..4)"
    return explore_check("C02", tier, tasks, S_RULE, COMMON_ASSUMPTIONS, dict(bounds=bounds))


C03_PARAMS = [
    ("sz1-ta0", dict(size=1, try_add=False), None),
    ("sz2-ta1", dict(size=2, try_add=True), None),
    ("szn", dict(size=8), None),
    ("2groups", dict(size=2), "split"),
    ("mx1", dict(size=1, max_nodes=1), None),
    ("local", dict(nproc=2), "local"),
    ("tb2", dict(time_based=True, walltime="0:02:00", nproc=1, try_add=True), "est1"),
]


def outcome_tasks(oracles, ns=(1, 2, 3), codes=(0, 1), budget=(0, 0), params=None):
    tasks = []
    for n in ns:
        for gi, bb in enumerate(S.dags(n)):
            blocked = [i for i in range(n) if bb[i]]
            for ec in itertools.product(codes, repeat=n):
                for fl in bits(len(blocked)):
                    cancel = [0] * n
                    for i, b in zip(blocked, fl):
                        cancel[i] = b
                    for tag, gkw, special in (params or C03_PARAMS):
                        kw = {}
                        assign = None
                        if special == "split":
                            if n < 2:
                                continue
                            assign = tuple(i % 2 for i in range(n))
                        if special == "local":
                            kw = dict(mode="local", actors=[])
                        if special == "est1":
                            kw = dict(est=(1,) * n)
                        sc = mk_scen(bb, gkw, exit_codes=ec, cancel=cancel, assign=assign, **kw)
                        tasks.append(dict(id=f"g{n}.{gi}-e{''.join(map(str, ec))}-f{''.join(map(str, fl))}-{tag}",
                                          scen=sc, oracles=["Obs"] + oracles, budget=budget,
                                          cls=("local" if special == "local" else _cls(bb, gkw))))
    return tasks


def fail_sets(n):
    out = [(0,) * n]
    for i in range(n):
        out.append(tuple(1 if k == i else 0 for k in range(n)))
    return out


def flag_sets(n):
    return [(0,) * n, (1,) * n]


def _c0304(prop, tier):
    if tier == "quick":
        tasks = outcome_tasks([prop], ns=(1, 2, 3))
        tasks += rep_tasks([prop], (1, 0), graphs=["chain3", "chain3r", "fork", "join", "diamond"],
                           params=REP_PARAMS[:2], exit_sets=fail_sets, cancel_sets=flag_sets)
        tasks += user_round_tasks([prop], (1, 0), ["pair", "chain2"], params=[("sz1-mxN", dict(size=1, max_nodes=None))])
        tasks += user_round_tasks([prop], (0, 0), ["indep3", "fork"])
        tasks += manual_submitter_tasks([prop], (0, 0), ["pair", "chain2", "fork"])
        tasks += rep_tasks([prop], (0, 0), graphs=["fan5"], params=[("one-batch-q2", dict(size=5, nproc=2)), ("sz2-q1", dict(size=2, nproc=1)), ("local", dict(nproc=2))],
                           exit_sets=lambda n: [None, (1, 0, 0, 0, 0), (0, 1, 0, 0, 0)], cancel_sets=lambda n: [(0, 1, 0, 1, 0)], stutter=1)
        tasks += backlog_tasks([prop])
        # a job killed by a signal has a NEGATIVE return code (-9): it failed, on the node and for the submitter alike
        tasks += outcome_tasks([prop], ns=(2, 3), codes=(0, -9), params=[C03_PARAMS[1], C03_PARAMS[5]])
        tasks += rep_tasks([prop], (0, 0), graphs=["indep11"], params=[("sz1-mx2", dict(size=1, max_nodes=2))], finish_orders="default")
        tasks += rep_tasks([prop], (0, 0), graphs=["cancelfan7"], params=[("one-batch-q2", dict(size=7, nproc=2)), ("sz3-q2", dict(size=3, nproc=2))],
                           exit_sets=lambda n: [(0, 1, 0, 0, 0, 0, 0)], cancel_sets=lambda n: [(0, 0, 1, 1, 1, 0, 0)], stutter=1)
        bounds = ("G(1..3) x exit codes {0,1}^n x cancel flags on blocked jobs x 7 parameter sets (incl. two groups, max-nodes 1, local, time-based) "
                  "at budget 0 with all finish orders; 5 REP graphs x single failures x flags at 1 preemption with the recovery actor; a user-run try-submit-jobs at any point (1 preemption on 2-job graphs, budget 0 on 3-job graphs); --no-distributed-submitter with the user running try-submit-jobs at any time; a 5-job fan-out and a 7-job cancel fan-out; 11 batches (two-digit batch numbers); G(2..3) x exit codes {0,-9 (killed by a signal)}^n x flags x {2 per batch, local}")
    else:
        tasks = outcome_tasks([prop], ns=(1, 2, 3))
        tasks += outcome_tasks([prop], ns=(2, 3), codes=(0, 2, 255), params=C03_PARAMS[:2])
        tasks += outcome_tasks([prop], ns=(2, 3), codes=(0, -9), params=C03_PARAMS[:6])
        tasks += rep_tasks([prop], (2, 0), params=REP_PARAMS, exit_sets=fail_sets, cancel_sets=flag_sets)
        tasks += user_round_tasks([prop], (2, 0), ["pair", "chain2"], params=[("sz1-mxN", dict(size=1, max_nodes=None))])
        tasks += user_round_tasks([prop], (1, 0), ["indep3", "fork", "chain3"], heavy_too=True)
        tasks += manual_submitter_tasks([prop], (1, 0), ["pair", "chain2", "fork", "indep3"])
        bounds = "as quick plus exit codes {0,2,255} and {0,-9} on all parameter sets; all REP graphs x single failures x flags at 2 preemptions"
    tasks += resub_slice_tasks([prop + "R"], tier, prop.lower())
    if prop == "C04" or tier == "thorough":
        tasks += resub_mixed_tasks([prop + "R"], tier, prop.lower())
    bounds += "; resubmission histories (every 3-job DAG x failing job x flags, refused batch, reruns succeed): final results again complete and all successful"
    return explore_check(prop, tier, tasks, S_RULE, COMMON_ASSUMPTIONS, dict(bounds=bounds))


@check("C03")
def c03(tier):
    return _c0304("C03", tier)


@check("C04")
def c04(tier):
    return _c0304("C04", tier)


SHOW_STATUS_REC = dict(name="rec", argv=["jade", "show-status", "-o", "{out}", "-n"], host="login2",
                       guard="idle_incomplete")


@check("C05")
def c05(tier):
    b = (1, 0) if tier == "quick" else (2, 0)
    graphs = ["pair", "chain3", "fork", "join", "diamond", "twocomp"] if tier == "quick" else None
    params = [("sz1-mx1", dict(size=1, max_nodes=1)), ("sz1-mx2", dict(size=1, max_nodes=2)),
              ("sz1-mxN", dict(size=1, max_nodes=None)), ("sz2-mxN", dict(size=2, max_nodes=None))]
    tasks = rep_tasks(["C05"], b, graphs=graphs, params=params)
    # the recovery offered by show-status
    for t in rep_tasks(["C05"], b, graphs=graphs or list(S.REP), params=params[1:3]):
        n = len(t["scen"]["jobs"])
        a = dict(SHOW_STATUS_REC)
        a["repeat"] = n + 2
        t["scen"]["actors"] = [a]
        t["id"] += "-showstatus"
        tasks.append(t)
    tasks += input_grid_tasks(["C05"], ns=(1, 2, 3))
    for t in rep_tasks(["C05"], b, graphs=["pair", "chain3", "fork"], params=params[1:3]):
        n = len(t["scen"]["jobs"])
        a = dict(SHOW_STATUS_REC)
        a["repeat"] = n + 2
        t["scen"]["actors"] = [a]
        t["scen"]["foreign_jobs"] = ["777", "778"]
        t["id"] += "-showstatus-foreignjobs"
        tasks.append(t)
    tasks += user_round_tasks(["C05"], (1, 0), ["pair", "chain2"], params=[("sz1-mxN", dict(size=1, max_nodes=None))])
    tasks += user_round_tasks(["C05"], (0, 0) if tier == "quick" else (1, 0), ["indep3", "fork"])
    tasks += manual_submitter_tasks(["C05"], (0, 0) if tier == "quick" else (1, 0), ["pair", "chain2", "fork"])
    tasks += resub_slice_tasks(["C05"], tier, "c05")
    tasks += rep_tasks(["C05"], (0, 0) if tier == "quick" else (1, 0), graphs=["chain3", "fork", "join", "diamond"], params=params[1:3],
                       exit_sets=fail_sets, cancel_sets=lambda n: [(0,) * n, (1,) * n])
    # the order of 'results summary, then flag' is only visible when unprotected files are sync points (L1)
    for t in rep_tasks(["C05"], (0, 0) if tier == "quick" else (1, 0), graphs=["pair", "chain3", "fork"], params=params[2:]):
        t["scen"]["level"] = 1
        t["id"] += "-L1"
        tasks.append(t)
    tasks += l2_reader_race_tasks(["C05"], tier, prefix="c05")
    bounds = f"a user's show-status started at any point at sync level L2 (every lock operation and file access a scheduling point) with 2 preemptions by or of the reader on the one-job submission (thorough: 2 unrestricted, 3 by or of the reader, 2 on two jobs); REP graphs x max-nodes {{1,2,unset}} at {b[0]} preemption(s) with the recovery actor (try-submit-jobs and show-status -n forms, re-armed up to n_jobs+2 times; also with unrelated jobs of the same user in squeue); G(1..3) x parameter grid at budget 0; a user-run try-submit-jobs at any point; failures x cancel flags; resubmission histories on every 3-job DAG; 3 graphs at sync level L1 (results.json / marker accesses are scheduling points)"
    return explore_check("C05", tier, tasks, S_RULE, COMMON_ASSUMPTIONS, dict(bounds=bounds))


@check("C06")
def c06(tier):
    b = (1, 0) if tier == "quick" else (2, 0)
    tasks = []
    graphs = ["pair", "fork", "join", "twocomp", "wide5"] if tier == "quick" else ["pair", "chain3", "fork", "join", "diamond", "twocomp", "indep3"]
    for mx in (1, 2):
        for nproc in (1, 2, None):
            for sz in (1, 2, 3):
                if tier == "quick" and sz == 3 and nproc == 1:
                    continue
                tasks += rep_tasks(["C06"], b, graphs=graphs,
                                   params=[(f"sz{sz}-mx{mx}-q{nproc}", dict(size=sz, max_nodes=mx, nproc=nproc))])
    # all 3-job DAGs at budget 0/1
    for gi, bb in enumerate(S.dags(3)):
        for mx in (1, 2):
            for nproc in (1, 2, None):
                sc = mk_scen(bb, dict(size=2, max_nodes=mx, nproc=nproc))
                tasks.append(dict(id=f"g3.{gi}-sz2-mx{mx}-q{nproc}", scen=sc, oracles=["Obs", "C06"],
                                  budget=(1, 0) if tier == "thorough" else (0, 0), cls="grid"))
    tasks += local_tasks(["C06"], ns=(2, 3))
    # failures + cancel flags inside one queue (canceled jobs pass through the queue's accounting)
    fan = dict(exit_sets=lambda n: [(0, 1, 0, 0, 0, 0, 0)], cancel_sets=lambda n: [(0, 0, 1, 1, 1, 0, 0)])
    tasks += rep_tasks(["C06"], (0, 0), graphs=["cancelfan7"], params=[("one-batch-q2", dict(size=7, nproc=2)), ("one-batch-q1", dict(size=7, nproc=1)),
                                                                       ("sz4-q2-mx1", dict(size=4, nproc=2, max_nodes=1))], **fan)
    t = rep_tasks(["C06"], (0, 0), graphs=["cancelfan7"], params=[("local-q2", dict(nproc=2))], mode="local", actors=[], **fan)
    tasks += t
    tasks += rep_tasks(["C06"], (0, 0), graphs=["fan5"], params=[("one-batch-q2", dict(size=5, nproc=2)), ("one-batch-q1", dict(size=5, nproc=1)), ("sz3-q2", dict(size=3, nproc=2))], stutter=1)
    tasks += rep_tasks(["C06"], (0, 0), graphs=["fan5"], params=[("local-q2", dict(nproc=2))], mode="local", actors=[], stutter=1)
    for t in tasks:
        if "cancelfan7" in t["id"]:
            t["scen"]["stutter"] = 2  # up to two polls per process at which nothing finishes
    tasks += rep_tasks(["C06"], (0, 0) if tier == "quick" else (1, 0), graphs=["chain3", "fork", "diamond", "wide5"],
                       params=[("sz3-q2-mx1", dict(size=3, nproc=2, max_nodes=1)), ("sz2-q1-mx2", dict(size=2, nproc=1, max_nodes=2))],
                       exit_sets=fail_sets, cancel_sets=lambda n: [(1,) * n])
    tasks += shard(rep_tasks(["C06"], (1, 0), graphs=["indep4"], params=[("sz1-mx3", dict(size=1, max_nodes=3))]), 4)
    # two groups with different process limits
    for g in ("indep4", "twocomp", "wide5"):
        bb = S.REP[g]
        for q1, q2 in ((2, 1), (None, 1), (1, 2)):
            sc = mk_scen(bb, dict(size=2, max_nodes=2, nproc=q1), assign=tuple(i % 2 for i in range(len(bb))))
            sc["groups"][1]["nproc"] = q2
            tasks.append(dict(id=f"c06-2groups-{g}-q{q1}-q{q2}", scen=sc, oracles=["Obs", "C06"], budget=(0, 0) if tier == "quick" else (1, 0), cls="2groups"))
    # a resubmission with new submitter parameters (-s groups file): the new process limit applies
    import copy

    for g in ("indep3", "indep4"):
        bb = S.REP[g]
        n = len(bb)
        for q1, q2 in ((2, 1), (None, 1), (1, 2)):
            actors = [rec_actor(n), dict(name="resub", argv=resub_argv(1, 1, 1) + ["-s", "{in}/groups2.json"], host="login1", guard="complete"),
                      dict(name="rec2", argv=["jade", "try-submit-jobs", "{out}"], host="login2", guard="idle_incomplete", after="resub", repeat=n + 2)]
            sc = mk_scen(bb, dict(size=n, max_nodes=None, nproc=q1), actors=actors)
            sc2 = copy.deepcopy(sc)
            sc2["groups"][0]["nproc"] = q2
            sc["aux_files"] = {"groups2.json": S.groups_file_text(sc2)}
            sc["resubmit_nproc"] = q2
            tasks.append(dict(id=f"c06-resub-groups-{g}-q{q1}-q{q2}", scen=sc, oracles=["Obs", "C06"], budget=(0, 0), cls="resubmit+new-groups"))
    for g in ("pair", "indep3"):
        bb = S.REP[g]
        n = len(bb)
        for mx in (1, 2):
            actors = [rec_actor(n), dict(name="resub", argv=resub_argv(1, 1, 1), host="login1", guard="complete_demoted"),
                      dict(name="rec2", argv=["jade", "try-submit-jobs", "{out}"], host="login2", guard="idle_incomplete", after="resub", repeat=n + 2)]
            sc = mk_scen(bb, dict(size=1, max_nodes=mx), actors=actors)
            tasks.append(dict(id=f"c06-resub-while-last-node-runs-{g}-mx{mx}", scen=sc, oracles=["Obs", "C06"], budget=(0, 0), cls="resubmit+old-batch-active"))
    # an active batch shown by squeue in a state JADE has no name for (SUSPENDED) still occupies its slot
    for t in rep_tasks(["C06", "C03"], (0, 0), graphs=["pair", "indep3", "fork"], params=[("sz1-mx1", dict(size=1, max_nodes=1)), ("sz1-mx2", dict(size=1, max_nodes=2))]):
        t["scen"]["odd_states"] = 1
        t["id"] += "-oddstate"
        t["cls"] = "unusual-squeue-state"
        tasks.append(t)
    # two groups that BOTH still have batches to hand over when a round starts with active batches and one free slot
    for a in ((0, 1, 0, 1), (0, 0, 1, 1)):
        for t in rep_tasks(["C06"], (0, 0), graphs=["indep4"], params=[("sz1-mx2", dict(size=1, max_nodes=2)), ("sz1-mx3", dict(size=1, max_nodes=3))], assign=a):
            t["id"] += "-2groups-a" + "".join(map(str, a))
            tasks.append(t)
    for a in ((0, 1, 0, 1, 0), (0, 0, 0, 1, 1), (1, 0, 1, 0, 0)):
        bb5 = [[] for _ in range(5)]
        for mx in (2, 3):
            sc = mk_scen(bb5, dict(size=1, max_nodes=mx), assign=a, finish_orders="default")
            tasks.append(dict(id=f"c06-indep5-sz1-mx{mx}-2groups-a{''.join(map(str, a))}", scen=sc, oracles=["Obs", "C06"], budget=(0, 0), cls="two-groups+" + _cls(bb5, dict(size=1, max_nodes=mx), a)))
    # a user-run try-submit-jobs at any point, from the login host and another one (two rounds must never both count
    # themselves below the limit)
    tasks += user_round_tasks(["C06"], (0, 0), ["indep3"], params=[("sz1-mx1", dict(size=1, max_nodes=1)), ("sz1-mx2", dict(size=1, max_nodes=2))])
    # a failing status query / a lock timeout in a round must not make the limit forgettable
    for t in rep_tasks(["C06"], (0, 1), graphs=["indep3", "indep4"], params=[("sz1-mx1", dict(size=1, max_nodes=1)), ("sz1-mx2", dict(size=1, max_nodes=2))]):
        t["fault"] = dict(plan="c11", kinds=["squeue", "lock"])
        t["scen"]["free_at_poll"] = True
        t["id"] += "-squeue-or-lock-fault"
        t["scen"]["actors"] = [dict(name="rec", argv=["jade", "try-submit-jobs", "{out}"], host="login2", guard="idle_incomplete", repeat=3)]
        tasks.append(t)
    bounds = f"a user-run try-submit-jobs at any point from two hosts (3 independent jobs, max-nodes 1/2); REP graphs x max-nodes {{1,2}} x processes {{1,2,unset/2 CPUs}} x batch sizes 1-3 at {b[0]} preemption(s); G(3) grid; local mode; failures + cancel flags (incl. a 7-job cancel fan-out in one queue, with up to 2 polls at which nothing finishes); two groups with different process limits; two groups that both have batches left when a round starts with one free slot (4-5 independent jobs, max-nodes 2/3); one failing status query (squeue down for a whole round) or one lock-acquisition timeout in a submitter round; resubmission with a groups file that changes the process limit; resubmission while the completing node's batch is still running; one squeue answer per execution showing an active batch as SUSPENDED"
    return explore_check("C06", tier, tasks, S_RULE, COMMON_ASSUMPTIONS, dict(bounds=bounds))


# ------------------------------------------------------------------------------ mode E checks
from . import modee, echecks  # noqa: E402,F401

E_ASSUMPTIONS = [
    "finite domains listed in coverage.domain_sizes are enumerated completely; nothing outside them is claimed",
    "seams: jade.utils.run_command._run_command (scripted command answers), ResourceMonitorAggregator._get_stats (scripted samples); everything above the seam is the real code",
]


def c18_system_tasks(tier):
    b = (1, 0) if tier == "quick" else (2, 0)
    st = rep_tasks(["C18S"], b, graphs=["pair", "indep3", "chain3", "fork", "twocomp"], params=[("sz1-mx2", dict(size=1, max_nodes=2)), ("sz1-mxN", dict(size=1, max_nodes=None)), ("sz2-mxN", dict(size=2, max_nodes=None))])
    st += user_round_tasks(["C18S"], (0, 0) if tier == "quick" else (1, 0), ["pair", "indep3"])
    st += shard(rep_tasks(["C18S"], (1, 0), graphs=["indep4"], params=[("sz1-mx3", dict(size=1, max_nodes=3))]), 4)
    # the status query failing for a whole round must not make active batches look finished
    for t in rep_tasks(["C18S"], (0, 1), graphs=["pair", "indep3", "chain3"], params=[("sz1-mx2", dict(size=1, max_nodes=2)), ("sz1-mxN", dict(size=1, max_nodes=None))]):
        t["fault"] = dict(plan="c11", kinds=["squeue"])
        t["scen"]["free_at_poll"] = True
        t["id"] += "-squeue-fault"
        st.append(t)
    for t in st:
        t["id"] = "c18s-" + t["id"]
    return st


@check("C18")
def c18(tier):
    return modee.enum_check(
        "C18", tier, ["c18_script", "c18_status", "c18_submit", "c18_retry"],
        "cases: (a) every assignment of {unset, value1, value2} to the 9 optional SLURM fields, rendered for 2 groups through HpcManager.submit(dry_run) and compared byte-for-byte with a reference rendering; "
        "(b) squeue outputs with 0-2 batches over all 24 SLURM states x 8 whitespace shapes through HpcStatusCollector/AsyncHpcSubmitter.is_complete; "
        "(c) 7 sbatch answers through JobQueue.submit(AsyncHpcSubmitter); (d) every outcome sequence over {ok, transient, listed-permanent} of length retries+1, retries 0-3, 3 calling modes through run_command. "
        "non-trivial: at least one optional field set / retries > 0 / any status case",
        E_ASSUMPTIONS + ["an AssertionError of the status parser on a malformed line is not counted as 'treated as finished' (recorded as a note)",
                         "system-level part (mode S): after every submitter round each batch that is pending/running in the simulated scheduler is still listed as active - also when the status query failed on every attempt of that round"],
        system_tasks=c18_system_tasks(tier))


def c20_system_tasks(tier):
    """Job processes that log their own events (job-outputs/<job>/events.log) in batches that run concurrently:
    every such event must reach the node event logs exactly once."""
    st = [t for i, t in enumerate(resub_slice_tasks(["C20R"], tier, "c20")) if i % 2 == 0 or tier == "thorough"]
    b = (1, 0) if tier == "quick" else (2, 0)
    ev = rep_tasks(["C20S"], b, graphs=["pair", "indep3", "chain3", "fork"], params=[("sz1-mxN", dict(size=1, max_nodes=None)), ("sz2-mxN", dict(size=2, max_nodes=None)), ("sz1-mx2", dict(size=1, max_nodes=2))])
    ev += rep_tasks(["C20S"], (0, 0), graphs=["fan5", "wide5"], params=[("sz2-q2", dict(size=2, nproc=2)), ("one-batch-q2", dict(size=5, nproc=2))])
    for t in ev:
        t["scen"]["job_events"] = 1
        t["id"] = "c20s-" + t["id"]
    return st + ev


@check("C20")
def c20(tier):
    return modee.enum_check(
        "C20", tier, ["c20_events", "c20_stats", "c20_procstats", "c20_tallies"],
        "cases: (a) all multisets of <=3 (quick) / <=4 (thorough) events over 2 names x 3 timestamps (tie, no fractional part) x 2 payloads, distributed over 1-3 per-process event files in every way, "
        "written by the real event logger, consolidated by EventsSummary, read back, re-read, re-consolidated, and consolidated again after the consolidated files were deleted and one more event logged (what resubmit-jobs does); (b) every sample sequence of length 1-4 over {0,1,2,5} through ResourceMonitorAggregator, and per-process statistics of two job processes with every presence mask over <=4 ticks x sample values; "
        "(c) every result set over {successful, failed(1), failed(2), failed(-9), canceled, missing}^n, n<=4 through JobSubmitter._handle_completion and ResultsSummary; "
        "(d) system level (mode S): the tallies of results.json after resubmission histories on every 3-job DAG; job processes logging their own events (start/end, file handle kept open) in concurrently running batches, 1 (thorough 2) preemption(s): each event exactly once in the node event logs at completion. non-trivial: more than one event/sample",
        E_ASSUMPTIONS, system_tasks=c20_system_tasks(tier))


from . import echecks2  # noqa: E402,F401


@check("C17")
def c17(tier):
    return modee.enum_check(
        "C17", tier, ["c17_roundtrip", "c17_invalid", "c17_reordered"],
        "cases: (a) the finite domain D17 (1-3 jobs; names over {unset,'a','job_1','7'} distinct; blocked_by = every DAG, blockers written as ints or strings; "
        "9 optional-field vectors (incl. an estimate of 0 minutes); 1-3 groups; plus all 16 lifecycle-command combinations) built through the public models, dumped, loaded with create_config_from_file, compared, dumped again, accepted by JobSubmitter.create; "
        "(b) valid configurations (D17 with <=2 jobs and a 3-job slice) x 13 single invalidities (incl. an integer blocker that is a job's generated id but nobody's name) + 2 valid controls, injected into the JSON file and run through the real `jade submit-jobs` as the login process over the simulated scheduler "
        "(rejected with InvalidConfiguration and zero sbatch, or accepted with >=1 sbatch); (c) every other listing order of the dumped job list for 2-3 jobs with at least one unnamed job (names, blockers, acceptance unchanged). non-trivial: more than one job, or an optional field / invalidity present",
        E_ASSUMPTIONS)


@check("C19")
def c19(tier):
    if not os.path.exists(os.path.join(echecks2.PROBE_DIR, "p255")):
        echecks2.build_probes()  # normally done by `./check setup`
    return modee.enum_check(
        "C19", tier, ["c19_launch"],
        "cases: job specifications = commands of <=3 tokens over a 25-token quoting/special-character alphabet (quotes with blanks, blank runs and tabs inside, escapes, $VAR, braces, globs, shell operators, non-ASCII), with JADE_* variables already set in the runner's own environment, with blank and blank-tab-blank separators (3-token commands: blank only in quick), "
        "cycled over the 4 append_* combinations and exit codes; all exit codes 0-255; 7 job-name shapes x 4 append_* combinations; the bare command. Each is executed by the real JobRunner/AsyncCliCommand with a REAL child process "
        "(compiled probe that reports argv/env and exits with the requested code); argv is compared with shlex.split + documented suffixes, env, own stdout/stderr files, and the row read back through ResultsAggregator (name, exit code, hpc_job_id). "
        "evaluations counts job specifications (run in batches of 24)",
        E_ASSUMPTIONS + ["real child processes; SLURM_* variables set in the checking process's environment"])


# ------------------------------------------------------------------------------ C07
G2_VARIANT = dict(slurm={"partition": "p2", "qos": "high"}, nproc=2, distributed=False, verbose=True,
                  job_prefix="other")


def c07_tasks(ns, tier):
    """Grid with group-specific parameters: the second group differs in SLURM fields and run options."""
    tasks = []
    for n in ns:
        for gi, bb in enumerate(S.dags(n)):
            grid = param_grid(n, max_nodes=(1, None) if n >= 3 else (1, 2, None),
                              caps=(2, 3) if n < 4 else (3,))
            for tag, gkw, est in grid:
                assigns = group_assignments(n, 2 if n > 1 else 1)
                if n >= 4:
                    assigns = assigns[:1] + ([assigns[5]] if est is None else [])
                for a in assigns:
                    if max(a) > 0 and not gkw.get("try_add", True) and n >= 3:
                        continue
                    sc = mk_scen(bb, gkw, est=est, assign=a,
                                 gnames=["zz_listed_first", "aa_listed_second"] if (gi + len(tasks)) % 2 and max(a) > 0 else None)
                    if len(sc["groups"]) > 1:
                        g2 = sc["groups"][1]
                        g2.update(G2_VARIANT)
                        if not gkw.get("time_based"):
                            g2["size"] = max(1, gkw["size"] - 1)
                        else:
                            g2["nproc"] = 1
                            g2["walltime"] = "0:03:00" if gkw["walltime"] == "0:02:00" else "0:02:00"
                    # node-side try-submit of a non-distributed group does not run: keep recovery
                    tasks.append(dict(id=f"g{n}.{gi}-{tag}-a{''.join(map(str, a))}", scen=sc,
                                      oracles=["Obs", "C07", "FirstRound"], budget=(0, 0), cls=_cls(bb, gkw, a)))
    return tasks


def c07_walltime_tasks():
    """Time-based batching with walltimes of hours/days (estimates scaled to the capacity)."""
    tasks = []
    for wt, cap in (("12:00:00", 720), ("1:30:00", 90), ("24:00:00", 1440), ("100:00:00", 6000), ("0:45:30", 45)):
        for ests in ((cap // 2,) * 3, (cap, 1, cap - 1), (cap // 3,) * 4):
            for nproc in (1, 2):
                bb = [[] for _ in ests]
                sc = mk_scen(bb, dict(time_based=True, walltime=wt, nproc=nproc, try_add=True, max_nodes=None), est=ests)
                tasks.append(dict(id=f"c07-wt{wt}-e{ests}-q{nproc}", scen=sc, oracles=["Obs", "C07"], budget=(0, 0), cls="time_based+long-walltime"))
    return tasks


def c07_maxnodes_tasks():
    """More ready batches than max-nodes allows (2 or 3 of 3-5 single-job batches): later rounds fill up, and the
    dry-run twin must stop where the real first round stops."""
    tasks = []
    for g in ("indep3", "indep4", "wide5", "fork"):
        bb = S.REP[g]
        for mx in (2, 3):
            if mx >= len(bb):
                continue
            gkw = dict(size=1, max_nodes=mx)
            sc = mk_scen(bb, gkw, finish_orders="default")
            tasks.append(dict(id=f"c07-{g}-sz1-mx{mx}", scen=sc, oracles=["Obs", "C07", "FirstRound"], budget=(0, 0), cls=_cls(bb, gkw)))
    return tasks


def _dry_twin(task, first_round):
    import copy

    t = copy.deepcopy(task)
    for g in t["scen"]["groups"]:
        g["dry_run"] = True
    t["scen"]["actors"] = []
    t["scen"]["expect_batches"] = {str(k): list(v) for k, v in first_round.items()}
    t["oracles"] = ["Obs", "C07Dry"]
    t["id"] += "-dry"
    return t


def _first_round_task(task):
    """Worker: run the default execution of `task`, return its first-round batches."""
    from .run import _mk

    boot.quiet()
    boot.mute_stdio()
    try:
        ex = Explorer(_mk(task), budget=(0, 0), cache=False)
        x = ex.execute(())
        fr = (x.final or {}).get("first_round")
    finally:
        boot.unmute_stdio()
    return task, fr


@check("C07")
def c07(tier):
    ns = (1, 2, 3) if tier == "quick" else (1, 2, 3, 4)
    tasks = c07_tasks(ns, tier)
    tasks += c07_walltime_tasks()
    tasks += c07_maxnodes_tasks()
    tasks += resub_slice_tasks(["C07"], tier, "c07")
    tasks += [t for i, t in enumerate(resub_slice_tasks(["C07"], tier, "c07", with_groups_file=True)) if i % 2 == 0 or tier == "thorough"]
    # dry-run twins: expectation = the first round of the real run (computed by running it)
    step = 3 if tier == "quick" else 2
    # (every scenario with a node limit gets a twin: a dry run must stop at max-nodes batches like the real round)
    base = [t for i, t in enumerate(tasks) if i % step == 0 or (t["scen"]["groups"][0].get("max_nodes") or 0) >= 2]
    twins = []
    errors = []
    for t, fr in run_pool(_first_round_task, base):
        if fr is None:
            errors.append(t["id"])
            continue
        twins.append(_dry_twin(t, fr))
    tasks = tasks + twins
    bounds = (f"all DAGs on {ns} jobs x (count sizes 1..n | time-based estimates {{1,2}}^n x capacity 2/3 min) x try-add on/off x max-nodes x "
              f"group assignments (second group with different SLURM fields, processes, distributed/verbose options, prefix; group names listed alphabetically and not); walltimes of minutes, hours and days; 3-5 single-job batches against max-nodes 2/3; resubmission histories (also with a new groups file, -s); every batch of every round of the "
              f"default schedule with all finish orders; dry-run twin of every {step}rd/nd scenario and of every scenario with max-nodes >= 2, compared with the real first round")
    return explore_check("C07", tier, tasks, S_RULE + "; C07 evaluates its oracle at every sbatch (all rounds reached) and on the files a dry run leaves",
                         COMMON_ASSUMPTIONS, dict(bounds=bounds, dry_twins=len(twins), dry_twin_errors=errors[:5]))


# ------------------------------------------------------------------------------ C09, C14, C16
CANCEL = dict(name="cancel", argv=["jade", "cancel-jobs", "{out}"], host="login1", guard="submitted")


def cancel_tasks(oracles, budget, graphs, followups=True, params=None):
    tasks = []
    params = params or [("sz1-mx1", dict(size=1, max_nodes=1)), ("sz1-mxN", dict(size=1, max_nodes=None))]
    seqs = [()]
    if followups:
        cmds = {"t": ["jade", "try-submit-jobs", "{out}"], "s": ["jade", "show-status", "-o", "{out}", "-n"]}
        seqs = [(), ("t",), ("s",), ("t", "t"), ("t", "s"), ("s", "t"), ("s", "s")]
    for g in graphs:
        bb = S.REP[g]
        for tag, gkw in params:
            for seq in seqs:
                actors = [dict(CANCEL)]
                prev = "cancel"
                for i, c in enumerate(seq):
                    nm = f"u{i}{c}"
                    actors.append(dict(name=nm, argv=cmds[c], host="login2", guard="submitted", after=prev))
                    prev = nm
                sc = mk_scen(bb, gkw, actors=actors)
                tasks.append(dict(id=f"cancel-{g}-{tag}-{''.join(seq) or 'none'}-b{budget[0]}", scen=sc,
                                  oracles=["Obs"] + oracles, budget=budget, cls="cancel+" + tag))
    return tasks


@check("C09")
def c09(tier):
    b = (1, 0) if tier == "quick" else (2, 0)
    graphs = ["chain3", "fork", "join", "diamond", "indep3"] if tier == "quick" else None
    tasks = rep_tasks(["C09"], b, graphs=graphs, exit_sets=fail_sets if tier == "thorough" else (lambda n: [None, (1,) + (0,) * (n - 1)]),
                      cancel_sets=flag_sets, params=REP_PARAMS[:2] if tier == "quick" else REP_PARAMS)
    if tier == "quick":
        tasks += cancel_tasks(["C09"], (0, 0), ["chain3", "indep3"], followups=False)
    else:
        tasks += shard(cancel_tasks(["C09"], (1, 0), ["chain3", "indep3"], followups=False), 16)
    tasks += input_grid_tasks(["C09"], ns=(1, 2, 3) if tier == "thorough" else (3,), two_groups=False)
    # two submission groups whose batches are handed over in the same round (status of BOTH groups' jobs must advance)
    tasks += [t for t in input_grid_tasks(["C09"], ns=(2,) if tier == "quick" else (2, 3), two_groups=True) if "+" in t["cls"] or len(t["scen"]["groups"]) > 1]
    tasks += rep_tasks(["C09"], (0, 0) if tier == "quick" else (1, 0), graphs=["indep3", "fork", "chain3"], params=REP_PARAMS[:2], assign=(0, 1, 0))
    # resubmissions (the baseline of the monotonicity clauses is reset by a resubmission)
    for t in c13_tasks(tier):
        if t["cls"].startswith("resubmit-complete") and ("-l1-" in t["id"] or tier == "thorough") and "-r0-" in t["id"] or t["cls"] == "resubmit-after-cancel":
            t = dict(t)
            t["oracles"] = ["Obs", "C09"]
            t["id"] = "c09-" + t["id"]
            tasks.append(t)
    # sync level L1: writers that touch the status/results files WITHOUT the lock are observed between
    # their individual file operations (at L0 only between their transitions)
    l1 = []
    for t in c13_tasks(tier):
        if t["cls"].startswith("resubmit-complete") and "-r0-" in t["id"] and ("-f110" in t["id"] or "-f111" in t["id"] or tier == "thorough") \
                and ("chain3-" in t["id"] or "fork-" in t["id"] or tier == "thorough"):
            t = dict(t)
            t["scen"] = dict(t["scen"])
            t["scen"]["level"] = 1
            t["oracles"] = ["Obs", "C09"]
            t["id"] = "c09-L1-" + t["id"]
            l1.append(t)
    for t in rep_tasks(["C09"], (0, 0) if tier == "quick" else (1, 0), graphs=["chain3", "fork", "indep3"], params=REP_PARAMS[:2],
                       exit_sets=lambda n: [None, (1,) + (0,) * (n - 1)], cancel_sets=flag_sets):
        t["scen"]["level"] = 1
        t["id"] = "c09-L1-" + t["id"]
        l1.append(t)
    tasks += l1
    bounds = f"REP graphs x exit codes x cancel flags at {b[0]} preemption(s); {len(l1)} scenarios (resubmissions, failures) at sync level L1; cancel-jobs actor at every point; input grid at budget 0 (one group; two groups on 2-job DAGs and 3 REP graphs); resubmissions of submissions with a lost batch (all 8 flag combinations) and after cancel; invariant evaluated after every transition that touched a status file while the cluster lock is free"
    return explore_check("C09", tier, tasks, S_RULE, COMMON_ASSUMPTIONS + ["at L0 writers that do not take the cluster lock are observed only between their transitions"], dict(bounds=bounds))


@check("C14")
def c14(tier):
    b = (1, 0) if tier == "quick" else (2, 0)
    if tier == "quick":
        graphs = ["indep3", "chain3", "fork"]
        tasks = cancel_tasks(["C14"], (0, 0), graphs, params=[("sz1-mx1", dict(size=1, max_nodes=1))])
        tb = cancel_tasks(["C14"], (0, 0), ["indep3", "chain3"], followups=False,
                          params=[("tb2-mx1", dict(time_based=True, walltime="0:02:00", nproc=1, max_nodes=1))])
        for t in tb:
            for j in t["scen"]["jobs"]:
                j["est"] = 2
        tasks += tb
        sq = cancel_tasks(["C14"], (0, 1), ["indep3"], followups=False, params=[("sz1-mx2", dict(size=1, max_nodes=2))])
        for t in sq:
            t["fault"] = dict(plan="c11", kinds=["squeue"], victims=["n", "login"])
            t["scen"]["free_at_poll"] = True
            t["id"] += "-squeue-fault"
        tasks += sq
        odd = cancel_tasks(["C14"], (0, 0), ["pair", "chain3"], followups=False, params=[("sz1-mx2", dict(size=1, max_nodes=2))])
        for t in odd:
            t["scen"]["odd_states"] = 1
            t["id"] += "-oddstate"
        tasks += odd
        tasks += shard(cancel_tasks(["C14"], (1, 0), ["chain2", "pair"], followups=False, params=[("sz1-mx1", dict(size=1, max_nodes=1)), ("sz1-mxN", dict(size=1, max_nodes=None))]), 4)
        tasks += cancel_tasks(["C14"], (0, 0), graphs + ["join", "twocomp"], followups=False,
                              params=[("sz1-mxN", dict(size=1, max_nodes=None)), ("sz2-mx2", dict(size=2, max_nodes=2))])
    else:
        graphs = ["indep3", "chain3", "fork", "join", "diamond", "twocomp", "indep4"]
        tasks = shard(cancel_tasks(["C14"], (1, 0), graphs), 4)
        tb = cancel_tasks(["C14"], (1, 0), ["indep3", "chain3", "fork"],
                          params=[("tb2-mx1", dict(time_based=True, walltime="0:02:00", nproc=1, max_nodes=1))])
        for t in tb:
            for j in t["scen"]["jobs"]:
                j["est"] = 2
        tasks += shard(tb, 4)
        tasks += shard(cancel_tasks(["C14"], (2, 0), ["indep3", "chain3"], followups=False), 32)
    bounds = (f"{len(graphs)} REP graphs x max-nodes {{1,unset}} (count-based and time-based batching) with cancel-jobs starting at any point (free first step) followed by every sequence of length <=2 over "
              f"{{try-submit-jobs, show-status -n}} and the surviving nodes' rounds; " + ("budget 0 (cancel at every point, default continuation, all job-finish orders and lingering-CANCELLED answers); 1 preemption on the 2-job graphs; one failing status query before the cancel; one squeue answer showing an active batch as SUSPENDED" if tier == "quick" else "1 preemption for all, 2 for the no-follow-up scenarios on 2 graphs"))
    return explore_check("C14", tier, tasks, S_RULE, COMMON_ASSUMPTIONS + ["scancel kills the node at once; a cancelled batch may linger in squeue as CANCELLED (zero-cost choice per query)"], dict(bounds=bounds))


HOOKS = dict(setup="hook setup --x 1", teardown="hook teardown", node_setup="hook node_setup 'a b'",
             node_teardown="hook node_teardown")


@check("C16")
def c16(tier):
    b = (1, 0)
    tasks = []
    graphs = ["pair", "chain3", "fork", "diamond"]
    for combo in itertools.product((0, 1), repeat=4):
        hooks = {k: (HOOKS[k] if bit else None) for k, bit in zip(HOOKS, combo)}
        ctag = "".join(map(str, combo))
        for g in graphs:
            bb = S.REP[g]
            n = len(bb)
            for tag, gkw, mode in (("sz1", dict(size=1, max_nodes=2), "hpc"), ("szn", dict(size=8), "hpc"),
                                   ("sz2", dict(size=2, max_nodes=None), "hpc"), ("local", dict(nproc=2), "local")):
                for ec in ([None, (1,) + (0,) * (n - 1)] if tier == "thorough" or g == "chain3" else [None]):
                    for hx in ([{}, {"hook": 1}] if (combo[1] or combo[3]) and (tier == "thorough" or g == "pair") else [{}]):
                        kw = dict(mode="local", actors=[]) if mode == "local" else {}
                        sc = mk_scen(bb, gkw, exit_codes=ec, hooks=hooks, **kw)
                        if hx:
                            # teardown / node teardown failing is tolerated; setup and node setup must succeed
                            sc["hook_exit_by_kind"] = {"teardown": 1, "node_teardown": 1}
                        bud = b if (tier == "thorough" or (g in ("pair", "fork") and tag == "sz1")) and mode == "hpc" else (0, 0)
                        tasks.append(dict(id=f"hooks{ctag}-{g}-{tag}-e{ec}-x{len(hx)}", scen=sc,
                                          oracles=["Obs", "C16"], budget=bud, cls=f"hooks{ctag}+{mode}"))
    # two submission groups (JADE_SUBMISSION_GROUP must be the batch's own group)
    allhooks = dict(HOOKS)
    for g in ("pair", "twocomp", "indep3"):
        bb = S.REP[g]
        for names in (None, ["zz_first", "aa_second"]):
            sc = mk_scen(bb, dict(size=1, max_nodes=2), assign=tuple(i % 2 for i in range(len(bb))), hooks=allhooks, gnames=names)
            tasks.append(dict(id=f"hooks-2groups-{g}-{'za' if names else 'dg'}", scen=sc, oracles=["Obs", "C16"], budget=(0, 0), cls="hooks+2groups"))
    # a completion with missing jobs (a batch was refused): teardown still runs exactly once
    for g in ("chain3", "indep3", "fork"):
        bb = S.REP[g]
        sc = mk_scen(bb, dict(size=1, max_nodes=None), hooks=allhooks)
        sc["refuse_scripts"] = ["job_batch_2.sh"]
        tasks.append(dict(id=f"hooks-lostbatch-{g}", scen=sc, oracles=["Obs", "C16"], budget=(0, 0), cls="hooks+lost-batch"))
    # failing teardown hooks on multi-batch graphs (the node must still hand over)
    for g in ("chain3", "fork", "indep3"):
        bb = S.REP[g]
        for tag, gkw in (("sz1", dict(size=1, max_nodes=2)), ("sz2", dict(size=2, max_nodes=None))):
            sc = mk_scen(bb, gkw, hooks=allhooks, actors=[])
            sc["hook_exit_by_kind"] = {"teardown": 1, "node_teardown": 1}
            tasks.append(dict(id=f"hooks-failing-teardown-{g}-{tag}", scen=sc, oracles=["Obs", "C16"], budget=(0, 0), cls="hooks+failing-teardown"))
    # failing setup / node setup commands: run once, and nothing they guard is started
    for g in ("pair", "chain3"):
        bb = S.REP[g]
        for kind in ("setup", "node_setup"):
            for tag, gkw, mode in (("sz1", dict(size=1, max_nodes=2), "hpc"), ("local", dict(nproc=2), "local")):
                kw = dict(mode="local", actors=[]) if mode == "local" else {}
                sc = mk_scen(bb, gkw, hooks=allhooks, **kw)
                sc["hook_exit_by_kind"] = {kind: 1}
                tasks.append(dict(id=f"hooks-failing-{kind}-{g}-{tag}", scen=sc, oracles=["Obs", "C16"], budget=(0, 0), cls=f"hooks+failing-{kind}"))
    # a resubmission: teardown again, setup not
    for g in ("chain2", "pair", "chain3"):
        bb = S.REP[g]
        n = len(bb)
        for ec, fl in (((1,) * n, (1, 1, 0)), ((1,) + (0,) * (n - 1), (1, 1, 0)), ((0,) * n, (0, 0, 1))):
            actors = [rec_actor(n), dict(name="resub", argv=resub_argv(*fl), host="login1", guard="complete"),
                      dict(name="rec2", argv=["jade", "try-submit-jobs", "{out}"], host="login2", guard="idle_incomplete", after="resub", repeat=n + 2)]
            sc = mk_scen(bb, dict(size=1, max_nodes=None), hooks=allhooks, actors=actors)
            sc["exit_codes"] = {S.NAMES[i]: [c, 0] for i, c in enumerate(ec) if c}
            tasks.append(dict(id=f"hooks-resub-{g}-e{''.join(map(str, ec))}-f{''.join(map(str, fl))}", scen=sc, oracles=["Obs", "C16"], budget=(0, 0), cls="hooks+resubmit"))
    tasks += l2_reader_race_tasks(["C16"], tier, hooks=allhooks, prefix="c16")
    bounds = "a user's show-status started at any point at sync level L2 with 2 preemptions by or of the reader on the one-job submission (thorough: 2 unrestricted, 3 by or of the reader, 2 on two jobs), all four hooks set; failing setup / node setup commands (run once, nothing started behind them); a refused batch (completion with missing jobs); failing teardown hooks without a recovery actor; two submission groups; resubmissions (all / some / successful jobs); all 16 set/unset combinations of the four lifecycle commands x 4 REP graphs x {1 batch per job, one batch, 2 per batch, local}; failing teardown hooks; budget 1 on the multi-batch scenarios"
    return explore_check("C16", tier, tasks, S_RULE, COMMON_ASSUMPTIONS, dict(bounds=bounds))


# ------------------------------------------------------------------------------ C13
def resub_argv(failed, missing, successful):
    a = ["jade", "resubmit-jobs", "{out}"]
    a.append("--failed" if failed else "--no-failed")
    a.append("--missing" if missing else "--no-missing")
    a.append("--successful" if successful else "--no-successful")
    return a


def resub_slice_tasks(oracles, tier, prefix, with_groups_file=False):
    """Resubmission histories for the property-specific checks: every 3-job DAG x failing job x cancel flags,
    `resubmit-jobs --failed --missing`, the rerun succeeds or fails again (the final outcome is the reference
    evaluation with the second run's exit codes);
    variants with a refused batch in the first run and with a new groups file (-s)."""
    import copy

    tasks = []
    for gi, bb in enumerate(S.dags(3)):
        if not any(bb):
            continue
        for f in range(3):
            for cancel in ((0, 0, 0), (1, 1, 1)):
                ec = tuple(1 if k == f else 0 for k in range(3))
                for tag, gkw, lost in (("sz1", dict(size=1, max_nodes=None), None), ("sz3", dict(size=3, max_nodes=None), None),
                                       ("sz1-lost", dict(size=1, max_nodes=None), "job_batch_2.sh")):
                    if tier == "quick" and tag != "sz1" and (gi + f) % 3:
                        continue
                    extra = ["-s", "{in}/groups2.json"] if with_groups_file else []
                    actors = [rec_actor(3), dict(name="resub", argv=resub_argv(1, 1, 0) + extra, host="login1", guard="complete"),
                              dict(name="rec2", argv=["jade", "try-submit-jobs", "{out}"], host="login2", guard="idle_incomplete", after="resub", repeat=5)]
                    sc = mk_scen(bb, gkw, cancel=cancel, actors=actors)
                    again = (gi + f + cancel[0]) % 2 == 1 and tag == "sz1"  # in half of the scenarios the job fails again
                    sc["exit_codes"] = {S.NAMES[i]: [c, c if again else 0] for i, c in enumerate(ec) if c}
                    sc["exit_by_epoch"] = True
                    if lost:
                        sc["refuse_scripts"] = [lost]
                    if with_groups_file:
                        sc2 = copy.deepcopy(sc)
                        sc2["groups"][0].update(walltime="0:07:00", slurm={"partition": "resub", "mem": "9G"}, nproc=1, verbose=True)
                        sc["aux_files"] = {"groups2.json": S.groups_file_text(sc2)}
                        sc["resubmit_groups"] = sc2["groups"]
                    tasks.append(dict(id=f"{prefix}-resub-g3.{gi}-f{f}-c{cancel[0]}-{tag}{'-s' if with_groups_file else ''}", scen=sc,
                                      oracles=["Obs"] + oracles, budget=(0, 0), cls="resubmission-slice"))
    return tasks


def resub_mixed_tasks(oracles, tier, prefix):
    """Resubmission histories with per-job cancel flags and a (possibly different) job failing in the second run."""
    tasks = []
    for gi, bb in enumerate(S.dags(3)):
        if sum(len(l) for l in bb) < 2:
            continue
        for f1 in range(3):
            for f2 in (None, 0, 1, 2):
                if f2 == f1:
                    continue
                for fl in itertools.product((0, 1), repeat=3):
                    if tier == "quick" and (sum(fl) in (0, 3) or (gi + f1 + (f2 or 0) + sum(fl)) % 2):
                        continue
                    actors = [rec_actor(3), dict(name="resub", argv=resub_argv(1, 1, 0), host="login1", guard="complete"),
                              dict(name="rec2", argv=["jade", "try-submit-jobs", "{out}"], host="login2", guard="idle_incomplete", after="resub", repeat=5)]
                    sc = mk_scen(bb, dict(size=1, max_nodes=None), cancel=fl, actors=actors)
                    codes = {S.NAMES[f1]: [1, 0]}
                    if f2 is not None:
                        codes[S.NAMES[f2]] = [0, 1]
                    sc["exit_codes"] = codes
                    sc["exit_by_epoch"] = True
                    tasks.append(dict(id=f"{prefix}-resubmix-g3.{gi}-f{f1}-s{f2}-c{''.join(map(str, fl))}", scen=sc,
                                      oracles=["Obs"] + oracles, budget=(0, 0), cls="resubmission-slice+mixed"))
    return tasks


def c13_tasks(tier):
    tasks = []
    graphs = ["chain2", "chain3", "chain3r", "fork", "diamondr"] if tier == "quick" else ["chain2", "chain2r", "chain3", "chain3r", "fork", "join", "joinr", "diamond", "diamondr", "twocomp"]
    for g in graphs:
        bb = S.REP[g]
        n = len(bb)
        exits = [(0,) * n] + [tuple(1 if k == i else 0 for k in range(n)) for i in range(n)]
        for ec in exits:
            for second in ("ok", "same"):
                if second == "same" and not any(ec):
                    continue
                for cancel in ((0,) * n, (1,) * n):
                    for lost in (None, "job_batch_2.sh"):
                        for reports in (False, True):
                            if tier == "quick" and reports and (lost or second == "same"):
                                continue
                            for fl in itertools.product((0, 1), repeat=3):
                                codes = {S.NAMES[i]: ([c, 0] if second == "ok" else [c, c]) for i, c in enumerate(ec) if c}
                                actors = [rec_actor(n), dict(name="resub", argv=resub_argv(*fl), host="login1", guard="complete"),
                                          dict(name="rec2", argv=["jade", "try-submit-jobs", "{out}"], host="login2",
                                               guard="idle_incomplete", after="resub", repeat=n + 2)]
                                if tier == "thorough" or (g in ("chain3", "fork") and not reports):
                                    actors.append(dict(name="resub2", argv=resub_argv(1, 1, 0), host="login1", guard="complete", after="resub"))
                                    actors.append(dict(name="rec3", argv=["jade", "try-submit-jobs", "{out}"], host="login2",
                                                       guard="idle_incomplete", after="resub2", repeat=n + 2))
                                sc = mk_scen(bb, dict(size=1, max_nodes=None, reports=reports), cancel=cancel, actors=actors)
                                sc["exit_codes"] = codes
                                if lost:
                                    if n < 2:
                                        continue
                                    sc["refuse_scripts"] = [lost]
                                tasks.append(dict(id=f"resub-{g}-e{''.join(map(str, ec))}{second}-c{cancel[0]}-l{int(bool(lost))}-r{int(reports)}-f{''.join(map(str, fl))}",
                                                  scen=sc, oracles=["Obs", "C13"], budget=(0, 0),
                                                  cls="resubmit-complete" + ("+no-reports" if not reports else "")))
    # every 3-job DAG (listing order vs dependency order) with a failing job
    for gi, bb in enumerate(S.dags(3)):
        if not any(bb):
            continue
        for f in range(3):
            for cancel in ((0, 0, 0), (1, 1, 1)):
                ec = tuple(1 if k == f else 0 for k in range(3))
                codes = {S.NAMES[i]: [c, 0] for i, c in enumerate(ec) if c}
                actors = [rec_actor(3), dict(name="resub", argv=resub_argv(1, 1, 0), host="login1", guard="complete"),
                          dict(name="rec2", argv=["jade", "try-submit-jobs", "{out}"], host="login2", guard="idle_incomplete", after="resub", repeat=5)]
                for tag, gkw in (("sz1", dict(size=1, max_nodes=None)),) + ((("sz3", dict(size=3, max_nodes=None)),) if tier == "thorough" or gi % 3 == 0 else ()):
                    sc = mk_scen(bb, gkw, cancel=cancel, actors=actors)
                    sc["exit_codes"] = codes
                    tasks.append(dict(id=f"resub-g3.{gi}-f{f}-c{cancel[0]}-{tag}", scen=sc, oracles=["Obs", "C13"], budget=(0, 0), cls="resubmit-complete+g3"))
    # resubmit-jobs as soon as the completion flag is on disk (the completing submitter may still hold the role)
    for g in ("chain2", "pair", "chain3"):
        bb = S.REP[g]
        n = len(bb)
        for host in ("login1", "n10%d" % n):
            actors = [rec_actor(n), dict(name="resub", argv=resub_argv(1, 1, 1), host=host, guard="complete_any"),
                      dict(name="rec2", argv=["jade", "try-submit-jobs", "{out}"], host="login2", guard="idle_incomplete", after="resub", repeat=n + 2),
                      dict(name="resub2", argv=resub_argv(1, 1, 1), host="login1", guard="complete", after="resub"),
                      dict(name="rec3", argv=["jade", "try-submit-jobs", "{out}"], host="login2", guard="idle_incomplete", after="resub2", repeat=n + 2)]
            sc = mk_scen(bb, dict(size=1, max_nodes=None), actors=actors)
            tasks.append(dict(id=f"resub-at-completion-{g}-{host}", scen=sc, oracles=["Obs", "C13"], budget=(0, 0) if tier == "quick" else (1, 0), cls="resubmit-at-completion"))
    # refusal on an incomplete submission: the command starts at any point (free start), also on the
    # host of the current submitter
    for g in (["chain3", "indep3"] if tier == "quick" else ["chain3", "indep3", "fork", "diamond"]):
        bb = S.REP[g]
        n = len(bb)
        for host in ("login1", "login9", "n101"):
            for tag, gkw in (("sz1-mx1", dict(size=1, max_nodes=1)), ("sz1-mxN", dict(size=1, max_nodes=None))):
                actors = [dict(name="resubearly", argv=resub_argv(1, 1, 0), host=host, guard="submitted_incomplete"),
                          dict(name="rec", argv=["jade", "try-submit-jobs", "{out}"], host="login2", guard="idle_incomplete", repeat=n + 2)]
                sc = mk_scen(bb, gkw, actors=actors)
                tasks.append(dict(id=f"resub-early-{g}-{host}-{tag}", scen=sc, oracles=["Obs", "C13"],
                                  budget=(0, 0) if tier == "quick" else (1, 0), cls="resubmit-incomplete"))
    # one fault in the resubmission (in the command itself, or in the round that completes the resubmission):
    # the submission can still be driven to completion, and a second resubmission selects by the real outcomes
    for g in ("chain2", "fork"):
        bb = S.REP[g]
        n = len(bb)
        actors = [rec_actor(n), dict(name="resub", argv=resub_argv(1, 1, 0), host="login1", guard="complete"),
                  dict(name="rec2", argv=["jade", "try-submit-jobs", "{out}"], host="login2", guard="idle_incomplete", after="resub", repeat=n + 3),
                  dict(name="resub2", argv=resub_argv(1, 1, 0), host="login1", guard="complete", after="resub"),
                  dict(name="rec3", argv=["jade", "try-submit-jobs", "{out}"], host="login2", guard="idle_incomplete", after="resub2", repeat=n + 2)]
        sc = mk_scen(bb, dict(size=1, max_nodes=None), actors=actors, level=2, free_at_poll=True)
        sc["exit_codes"] = {"a": [1, 0]}
        for tag, victims, kinds in (("cmd", ["resub"], ["squeue", "sbatch"]), ("rounds", ["n", "rec2"], ["write", "squeue"])):
            if tag == "cmd" and g != "chain2" and tier == "quick":
                continue
            tasks.append(dict(id=f"resub-fault-{g}-{tag}", scen=sc, oracles=["Obs", "C13"], budget=(0, 1),
                              fault=dict(plan="c11", victims=victims, kinds=kinds, from_epoch=0 if tag == "cmd" else 1, write_paths=["results.json"]), cls="resubmit+fault"))
    # cancel, then resubmit the missing jobs
    for g in ("indep3", "chain3"):
        bb = S.REP[g]
        n = len(bb)
        actors = [dict(CANCEL), dict(name="resub", argv=resub_argv(1, 1, 0), host="login1", guard="complete", after="cancel"),
                  dict(name="rec2", argv=["jade", "try-submit-jobs", "{out}"], host="login2", guard="idle_incomplete", after="resub", repeat=n + 2)]
        sc = mk_scen(bb, dict(size=1, max_nodes=1), actors=actors)
        tasks.append(dict(id=f"cancel-resub-{g}", scen=sc, oracles=["Obs", "C13"], budget=(0, 0), cls="resubmit-after-cancel"))
    return tasks


@check("C13")
def c13(tier):
    tasks = c13_tasks(tier)
    bounds = ("completed submissions produced by the real code for REP graphs x single failures (rerun succeeds / fails again) x cancel flags x one refused batch (missing jobs) x reports on/off, "
              "then resubmit-jobs with all 8 flag combinations run to completion (and a second resubmission); every 3-job DAG x failing job x cancel flags; resubmit-jobs as soon as the completion flag is on disk; resubmit-jobs as a free-start actor at every point of an incomplete submission from 3 hosts; cancel then resubmit; one fault (failing status query or sbatch in the resubmit command; failing status query or EDQUOT at results.json in a round of the resubmission) at L2, followed by recovery rounds and a second resubmission")
    return explore_check("C13", tier, tasks, S_RULE, COMMON_ASSUMPTIONS, dict(bounds=bounds))


# ------------------------------------------------------------------------------ C15
def stage(names, bb=None, size=1, mode="hpc", max_nodes=None, **kw):
    bb = bb or [[] for _ in names]
    jobs = [S.job(n, [names[j] for j in bb[i]]) for i, n in enumerate(names)]
    st = dict(jobs=jobs, group=S.group(size=size, max_nodes=max_nodes), mode=mode)
    st.update(kw)
    return st


STAGE_SHAPES = {
    "one": lambda k: stage([f"s{k}a"]),
    "two-batches": lambda k: stage([f"s{k}a", f"s{k}b"], size=1),
    "one-batch2": lambda k: stage([f"s{k}a", f"s{k}b"], size=2),
    "chain": lambda k: stage([f"s{k}a", f"s{k}b"], bb=[[], [0]], size=1),
    "local": lambda k: stage([f"s{k}a", f"s{k}b"], mode="local", size=2),
}


def c15_tasks(tier):
    tasks = []
    shapes = list(STAGE_SHAPES)
    nmax = 3 if tier == "quick" else 4
    for n in range(1, nmax + 1):
        combos = list(itertools.product(shapes, repeat=n))
        if n == 3:
            combos = [c for c in combos if len(set(c)) >= 2][:: (4 if tier == "quick" else 1)]
        if n == 4:
            combos = combos[::25]
        for combo in combos:
            for fails in ((), ("s1a",)) if tier == "thorough" or n <= 2 else ((),):
                stages = [STAGE_SHAPES[s](k) for k, s in enumerate(combo, start=1)]
                njobs = sum(len(s["jobs"]) for s in stages)
                rec = dict(name="rec", argv=["jade", "try-submit-jobs", "{stage}"], host="login2",
                           guard="pipeline_idle_incomplete", repeat=njobs + n + 2)
                sc = S.scenario([j for s in stages for j in s["jobs"]], actors=[rec], login="pipeline",
                                exit_codes={f: 1 for f in fails})
                sc["stages"] = stages
                bud = (1, 0) if (n <= 2 or tier == "thorough") else (0, 0)
                tasks.append(dict(id=f"pipe-{'+'.join(combo)}-f{len(fails)}-b{bud[0]}", scen=sc,
                                  oracles=["Obs", "C15"], budget=bud, cls="pipeline"))
                if not fails and n == 2 and combo in (("two-batches", "one"), ("chain", "one")) or (tier == "thorough" and not fails and combo == ("one-batch2", "two-batches")):
                    import copy

                    sc5 = copy.deepcopy(sc)
                    sc5["actors"].append(dict(name="usr", argv=["jade", "try-submit-jobs", "{stage}"], host="login4", guard="pipeline_stage_submitted"))
                    ut = dict(id=f"pipe-{'+'.join(combo)}-usr", scen=sc5, oracles=["Obs", "C15"], budget=(1, 0), cls="pipeline+user-round", weight=8)
                    tasks += shard([ut], 16 if combo[0] != "chain" else 6)
                if not fails and n == 2 and combo in (("two-batches", "one"), ("one-batch2", "one"), ("chain", "one")):
                    # (a) the scheduler's status query fails for a whole round of one process (the round dies, the others go on)
                    import copy

                    scq = copy.deepcopy(sc)
                    scq["free_at_poll"] = True
                    tasks.append(dict(id=f"pipe-{'+'.join(combo)}-squeue-fault", scen=scq, oracles=["Obs", "C15"], budget=(0, 1),
                                      fault=dict(plan="c11", kinds=["squeue"]), cls="pipeline+squeue-fault"))
                    # (a2) a full disk at one write (EDQUOT at open / commit of any status, results or pipeline file) in any
                    # process, at sync level L2: whatever dies, no stage is started early or configured twice
                    if combo in (("two-batches", "one"), ("one-batch2", "one")):
                        scw = copy.deepcopy(sc)
                        scw["free_at_poll"] = True
                        scw["level"] = 2
                        tasks.append(dict(id=f"pipe-{'+'.join(combo)}-edquot", scen=scw, oracles=["Obs", "C15"], budget=(0, 1),
                                          fault=dict(plan="c11", kinds=["write"]), cls="pipeline+write-fault"))
                    # (a3) cancel-jobs on the running first stage while one scancel request fails (the batch keeps running):
                    # the next stage must still wait for it
                    if combo == ("two-batches", "one"):
                        scc = copy.deepcopy(sc)
                        scc["free_at_poll"] = True
                        scc["actors"].append(dict(name="cancel", argv=["jade", "cancel-jobs", "{stage}"], host="login4", guard="pipeline_stage_submitted"))
                        tasks += shard([dict(id=f"pipe-{'+'.join(combo)}-cancel-scancel-fault", scen=scc, oracles=["Obs", "C15"], budget=(0, 1),
                                             fault=dict(plan="c11", kinds=["scancel"]), cls="pipeline+cancel+scancel-fault", weight=8)], 6)
                    # (b) a failing first job with cancel flags on the others: canceled jobs have results, they are not missing
                    scf = copy.deepcopy(sc)
                    first = stages[0]["jobs"][0]["name"]
                    scf["exit_codes"] = {first: 1}
                    for st_ in scf["stages"]:
                        for j_ in st_["jobs"]:
                            j_["cancel"] = True
                    for j_ in scf["jobs"]:
                        j_["cancel"] = True
                    tasks.append(dict(id=f"pipe-{'+'.join(combo)}-fail-cancelflags", scen=scf, oracles=["Obs", "C15"], budget=(0, 0),
                                      cls="pipeline+failure+cancel-flags"))
                if not fails and n == 2 and combo[0] in ("one", "two-batches", "local"):
                    import copy

                    sc4 = copy.deepcopy(sc)
                    sc4["stage_hooks"] = {"teardown": "hook teardown"}
                    sc4["hook_exit_by_kind"] = {"teardown": 1}
                    tasks.append(dict(id=f"pipe-{'+'.join(combo)}-failing-teardown", scen=sc4, oracles=["Obs", "C15"],
                                      budget=(0, 0), cls="pipeline+failing-teardown"))
                if not fails and n == 3 and combo[1] in ("one", "one-batch2") and combo[0] != "local":
                    # every batch of the MIDDLE stage is refused by the scheduler: the stage ends with all its jobs missing,
                    # the last stage still runs exactly once
                    import copy

                    scr = copy.deepcopy(sc)
                    scr["refuse_scripts"] = ["output-stage2/job_batch_1.sh"]
                    tasks.append(dict(id=f"pipe-{'+'.join(combo)}-stage2-refused", scen=scr, oracles=["Obs", "C15"],
                                      budget=(0, 0), cls="pipeline+stage-refused"))
                if not fails and "two-batches" in combo and (n <= 2 or tier == "thorough"):
                    import copy

                    sc3 = copy.deepcopy(sc)
                    sc3["refuse_scripts"] = ["job_batch_2.sh"]  # every stage that has a second batch loses it
                    tasks.append(dict(id=f"pipe-{'+'.join(combo)}-lostbatch", scen=sc3, oracles=["Obs", "C15"],
                                      budget=(0, 0), cls="pipeline+lost-batch"))
                if not fails and ((tier == "thorough" and n in (2, 3)) or (n == 2 and combo[0] in ("one", "two-batches"))):
                    # a duplicated trigger for stage 2 (re-run by hand or delivered twice), at any later point
                    import copy

                    sc2 = copy.deepcopy(sc)
                    sc2["actors"].append(dict(name="dup", argv=["jade", "pipeline", "submit-next-stage", "{out}",
                                                                "--stage-num=2", "--return-code=0"],
                                              host="login3", guard="pipeline_stage2_started"))
                    tasks.append(dict(id=f"pipe-{'+'.join(combo)}-dup", scen=sc2, oracles=["Obs", "C15"],
                                      budget=(0, 0), cls="pipeline+duplicate-trigger"))
    return tasks


@check("C15")
def c15(tier):
    tasks = c15_tasks(tier)
    bounds = ("pipelines of 1-3 (thorough 4) stages over 5 stage shapes (1 job; 2 jobs in 2 batches; 2 jobs in 1 batch; 2-job chain; local), stage configs with and without their own submission groups, "
              "a failing job in stage 1, a refused batch (stage ends with missing jobs), a middle stage whose only batch is refused, a failing stage teardown command, squeue failing for a whole round, EDQUOT at any single write (L2), cancel-jobs on the first stage with one failing scancel request, a failing job with cancel flags, a user-run try-submit-jobs on the current stage at any point, a duplicated stage-2 trigger at any later point; jade pipeline submit as the login process, next stages triggered by the real submit-next-stage; 1 preemption on <=2-stage pipelines (all in thorough) with the recovery actor on the current stage")
    return explore_check("C15", tier, tasks, S_RULE, COMMON_ASSUMPTIONS + ["auto-config commands are not explored (they write relative to the process cwd); stage config files only"], dict(bounds=bounds))


# ------------------------------------------------------------------------------ mode F: C08, C10
from . import modef  # noqa: E402

F_RULE = ("each evaluation is one complete interleaving of small drivers calling the real component, with a scheduling point at every lock "
          "acquire/release and every file operation on the shared directory (open, commit-at-close, remove, rename, listing, stat of lock/csv files); "
          "enumerated depth-first by prefix replay with state caching; budget = preemptions (99 = unbounded: all interleavings)")
F_ASSUMPTIONS = [
    "write visibility: data of a text file opened for writing reaches the file at close() (buffered-writer model, DESIGN 1.2); a single small write is atomic",
    "lock library behaviour never_break; filelock.SoftFileLock replaced by a model over the real marker file (jmc/vlock.py)",
    "drivers are tiny by design; what they do is listed in coverage.bounds",
]


def f_task(id_, setup, drivers, oracle, budget, cls="F"):
    sc = dict(setup=setup, drivers=drivers, level=3, jobs=[], groups=[], exit_codes={})
    return dict(id=id_, scen=sc, oracles=[oracle], budget=budget, world="F", cls=cls)


@check("C08")
def c08(tier):
    D = dict(A1=modef.A1, A2=modef.A2, R1=modef.R1, R2=modef.R2, RD=modef.RD, A3=modef.A3)
    tasks = []
    names = ["A1", "A2", "R1", "R2", "RD"]
    for k in (2, 3):
        for combo in itertools.combinations(names, k):
            if not any(n.startswith("A") for n in combo) or not any(n.startswith("R") for n in combo):
                continue
            drv = [D[n] for n in combo]
            if k == 2 or "A1" not in combo:
                tasks.append(f_task("c08-" + "+".join(combo) + "-all", "results", drv, "C08", (99, 0)))
            elif tier == "quick":
                tasks.append(f_task("c08-" + "+".join(combo) + "-b3", "results", drv, "C08", (3, 0)))
            else:
                tasks += shard([f_task("c08-" + "+".join(combo) + "-all", "results", drv, "C08", (99, 0))], 8)
    four = [D[n] for n in ("A1", "A2", "R1", "R2")]
    if tier == "quick":
        tasks += shard([f_task("c08-A1+A2+R1+R2-b2", "results", four, "C08", (2, 0))], 12)
    else:
        tasks += shard([f_task("c08-A1+A2+R1+R2-b3", "results", four, "C08", (3, 0))], 48)
        tasks += shard([f_task("c08-A1+A3+R1-all", "results", [D["A1"], D["A3"], D["R1"]], "C08", (99, 0))], 8)
        tasks += shard([f_task("c08-A1+A2+A3+R1+R2-b2", "results", four + [D["A3"]], "C08", (2, 0))], 32)
        tasks += shard([f_task("c08-A1+A2+R1+R2+RD-b2", "results", four + [D["RD"]], "C08", (2, 0))], 32)
    bounds = ("drivers: A1 appends 2 rows (one a node-level cancel) to batch 1's file, A2 1 row to batch 2's, A3 1 row to batch 1's (thorough), R1/R2 run process_results twice and append a submitter-level cancel, RD lists results; "
              "every pair appender+collector and every 3-driver subset without A1 with unbounded budget (all interleavings); 3-driver subsets with A1 at " + ("3 preemptions" if tier == "quick" else "unbounded budget")
              + "; all four at budget " + ("2" if tier == "quick" else "3; five drivers at budget 2"))
    # system-level half: runner processes (AsyncCliCommand) appending while submitter rounds collect
    sb = (1, 0) if tier == "quick" else (2, 0)
    sys_params = [("sz2-q1-mxN", dict(size=2, nproc=1, max_nodes=None)), ("sz2-q2-mxN", dict(size=2, nproc=None, max_nodes=None)),
                  ("sz3-q1-mx2", dict(size=3, nproc=1, max_nodes=2))]
    st = rep_tasks(["C08S"], sb, graphs=["indep3", "indep4", "twocomp", "wide5"] if tier == "quick" else None, params=sys_params)
    st += rep_tasks(["C08S"], (1, 0) if tier == "quick" else sb, graphs=["chain3", "fork", "diamond", "join"], params=[("sz1-mx2", dict(size=1, max_nodes=2)), ("sz2-mxN", dict(size=2, max_nodes=None))],
                    exit_sets=fail_sets, cancel_sets=lambda n: [(1,) * n])
    # a status query that fails for a whole round while results are waiting to be collected
    for t in rep_tasks(["C08S"], (0, 1), graphs=["chain3", "indep3", "fork"], params=[("sz1-mx2", dict(size=1, max_nodes=2)), ("sz2-mxN", dict(size=2, max_nodes=None))]):
        t["fault"] = dict(plan="c11", kinds=["squeue"])
        t["scen"]["free_at_poll"] = True
        t["id"] += "-squeue-fault"
        st.append(t)
    # a full disk at one write of a consolidation (EDQUOT at open or at the commit of processed_results.csv): the round dies,
    # the rows must still be collected exactly once by the rounds that follow
    for t in rep_tasks(["C08S"], (0, 1), graphs=["chain3", "indep3"], params=[("sz1-mx2", dict(size=1, max_nodes=2)), ("sz2-mxN", dict(size=2, max_nodes=None))]):
        t["fault"] = dict(plan="c11", kinds=["write"], write_paths=["processed_results.csv"])
        t["scen"]["free_at_poll"] = True
        t["scen"]["level"] = 2
        t["id"] += "-edquot-at-consolidation"
        st.append(t)
    # jobs killed by a signal (negative return codes) are results like any other
    st += rep_tasks(["C08S"], (0, 0), graphs=["indep3", "chain3", "fork"], params=[("sz1-mx2", dict(size=1, max_nodes=2)), ("sz2-mxN", dict(size=2, max_nodes=None))],
                    exit_sets=lambda n: [(-9,) + (0,) * (n - 1), (0,) * (n - 1) + (-15,)])
    # two-digit batch numbers: results_batch_10.csv, results_batch_11.csv must be collected like the others
    st += rep_tasks(["C08S"], (0, 0), graphs=["indep11"], params=[("sz1-mx2", dict(size=1, max_nodes=2))], finish_orders="default")
    for t in st:
        t["id"] = "c08s-" + t["id"]
    tasks += st
    bounds += ("; system level: REP graphs with several jobs per batch (processes 1/2) and with failures + cancel flags, real run-jobs processes appending while other nodes' submitter rounds collect, "
               f"{sb[0]} preemption(s), oracle: every runner row exactly once in the consolidated file and its job reported done; also after one failed status query (squeue down for a whole round); 11 single-job batches (two-digit results file names); EDQUOT at any write of the consolidated file in a round (L2); jobs killed by signals (return codes -9, -15)")
    return explore_check("C08", tier, tasks, F_RULE + "; the system-level scenarios use the mode-S rule (real CLI processes over the simulated scheduler)", F_ASSUMPTIONS, dict(bounds=bounds))


C10_CORE = ["D", "P", "p", "d", "usa", "uca", "m", "h"]
C10_FULL = C10_CORE + ["g", "usc", "ucc"]


def c10_sequences(alphabet, maxlen):
    out = []
    for first in ("D", "P"):
        out.append((first,))
        if maxlen >= 2:
            for b in alphabet:
                out.append((first, b))
                if maxlen >= 3:
                    for c in alphabet:
                        out.append((first, b, c))
    return out


@check("C10")
def c10(tier):
    tasks = []
    hosts = ["h1", "h2", "h1"]
    if tier == "quick":
        seqs = c10_sequences(C10_CORE, 2)
        for i, s1 in enumerate(seqs):
            for s2 in seqs[i:]:
                for h2 in ("h2", "h1"):
                    if h2 == "h1" and not ("d" in s1 + s2) and not (any(x in ("P", "p") for x in s1) and any(x in ("P", "p") for x in s2)):
                        continue  # same-host pairs: those with a demotion, and those in which both handles ask for the role
                    drivers = [dict(name="H1", kind="handle", host="h1", ops=list(s1)),
                               dict(name="H2", kind="handle", host=h2, ops=list(s2))]
                    tasks.append(f_task(f"c10-{''.join(s1)}|{''.join(s2)}@{h2}", "cluster", drivers, "C10", (99, 0)))
        for s in itertools.product(("D", "P"), repeat=3):
            drivers = [dict(name=f"H{i + 1}", kind="handle", host=hosts[i], ops=[s[i]]) for i in range(3)]
            tasks.append(f_task(f"c10-3x-{''.join(s)}", "cluster", drivers, "C10", (99, 0)))
        for s in (("P", "d"), ("P", "usa"), ("D", "p")):
            drivers = [dict(name=f"H{i + 1}", kind="handle", host=hosts[i], ops=list(s)) for i in range(3)]
            tasks.append(f_task(f"c10-3x-{''.join(s)}", "cluster", drivers, "C10", (3, 0)))
        bounds = "2 handles (hosts h1/h2 and h1/h1) x every pair of sequences of length <=2 over {D,P,p,d,us,uc,m,h} starting with a deserialize, all interleavings; 3 handles x length 1 all interleavings, 3 sequences of length 2 at budget 3"
    else:
        seqs = c10_sequences(C10_FULL, 2)
        for i, s1 in enumerate(seqs):
            for s2 in seqs[i:]:
                for h2 in ("h2", "h1"):
                    drivers = [dict(name="H1", kind="handle", host="h1", ops=list(s1)),
                               dict(name="H2", kind="handle", host=h2, ops=list(s2))]
                    tasks.append(f_task(f"c10-{''.join(s1)}|{''.join(s2)}@{h2}", "cluster", drivers, "C10", (99, 0)))
        seqs3 = c10_sequences(C10_CORE, 3)
        for i, s1 in enumerate(seqs3):
            for s2 in seqs3[i::7]:
                drivers = [dict(name="H1", kind="handle", host="h1", ops=list(s1)),
                           dict(name="H2", kind="handle", host="h2", ops=list(s2))]
                tasks.append(f_task(f"c10-{''.join(s1)}|{''.join(s2)}", "cluster", drivers, "C10", (3, 0)))
        seqs2 = c10_sequences(C10_CORE, 2)
        for s1 in seqs2[::2]:
            for s2 in seqs2[::3]:
                for s3 in seqs2[::5]:
                    drivers = [dict(name=f"H{i + 1}", kind="handle", host=hosts[i], ops=list(s)) for i, s in enumerate((s1, s2, s3))]
                    tasks.append(f_task(f"c10-3x-{''.join(s1)}|{''.join(s2)}|{''.join(s3)}", "cluster", drivers, "C10", (3, 0)))
        bounds = "2 handles x every pair of sequences of length <=2 over the full alphabet {D,P,p,d,us(a|c),uc(a|c),m,h,g}, all interleavings; length 3 over the core alphabet (every 7th partner) at budget 3; 3 handles x length <=2 (subsample of partners, stated strides) at budget 3"
    # promotion through deserialize without the job status (deserialize_jobs=False)
    for s1 in (("Pn",), ("Pn", "d"), ("Pn", "p"), ("Pn", "m")):
        for s2 in seqs + [("Pn",), ("Pn", "d")]:
            for h2 in ("h2", "h1"):
                drivers = [dict(name="H1", kind="handle", host="h1", ops=list(s1)),
                           dict(name="H2", kind="handle", host=h2, ops=list(s2))]
                tasks.append(f_task(f"c10-{''.join(s1)}|{''.join(s2)}@{h2}-nojobs", "cluster", drivers, "C10", (99, 0)))
    # a handle that has already written once and then holds a copy made stale by the other handle
    writers = ("usa", "uca", "h")
    for first in ("D", "P"):
        for w1 in writers:
            for w2 in writers:
                for w3 in writers:
                    drivers = [dict(name="H1", kind="handle", host="h1", ops=[first, w1, w2]),
                               dict(name="H2", kind="handle", host="h2", ops=["D", w3])]
                    tasks.append(f_task(f"c10-{first}{w1}{w2}|D{w3}-own-write-then-stale", "cluster", drivers, "C10", (99, 0)))
    # a handle killed at any point of its critical section (the state is then judged against the JSON files);
    # same host + break_stale, because only then can the survivor ever take the dead handle's lock
    kseqs = [("D", "usa"), ("P", "d"), ("D", "m"), ("P", "usa"), ("D", "h")]
    for s1 in kseqs:
        for s2 in kseqs:
            drivers = [dict(name="H1", kind="handle", host="h1", ops=list(s1)), dict(name="H2", kind="handle", host="h1", ops=list(s2))]
            t = f_task(f"c10-kill-{''.join(s1)}|{''.join(s2)}", "cluster", drivers, "C10", (2, 1) if tier == "quick" else (99, 1))
            t["scen"]["lockmode"] = "break_stale"
            t["fault"] = dict(plan="kill_any", victims=["H1"])
            tasks.append(t)
    bounds += "; a handle with two job-status writes against a handle with one (54 pairs, all interleavings); promotion through deserialize without the job status (Pn) followed by demote/promote/mark-complete against every length-<=2 sequence"
    bounds += "; 25 pairs of length-2 sequences on one host with the first handle killed at any sync point (lock behaviour break_stale)"
    # system-level half: the CLI commands' use of the role (try-submit-jobs shortcuts, user commands on the
    # submitter's own host, rounds that overlap)
    sb = (1, 0) if tier == "quick" else (2, 0)
    st = rep_tasks(["C10S"], sb, graphs=["pair", "indep3", "chain3", "fork"] if tier == "quick" else None,
                   params=[("sz1-mx2", dict(size=1, max_nodes=2)), ("sz1-mxN", dict(size=1, max_nodes=None))])
    st += user_round_tasks(["C10S"], (0, 0) if tier == "quick" else (1, 0), ["pair", "indep3", "chain3"])
    # a user command on an already complete submission, from the host of the last submitter and another one
    for g in ("pair", "chain3"):
        bb = S.REP[g]
        for host in ("login1", "n101", "n102", "login5"):
            actors = [rec_actor(len(bb)), dict(name="late", argv=["jade", "try-submit-jobs", "{out}"], host=host, guard="complete_any"),
                      dict(name="late2", argv=["jade", "try-submit-jobs", "{out}"], host="login6", guard="complete_any", after="late")]
            sc = mk_scen(bb, dict(size=1, max_nodes=None), actors=actors)
            st.append(dict(id=f"late-{g}-{host}", scen=sc, oracles=["Obs", "C10S"], budget=(1, 0), cls="late-user-round"))
    # cancel-jobs from the submitter's own host and from another one, at any point
    for t in cancel_tasks(["C10S"], (0, 0), ["pair", "chain3"], followups=False, params=[("sz1-mx1", dict(size=1, max_nodes=1)), ("sz1-mxN", dict(size=1, max_nodes=None))]):
        for host in ("login1", "n101", "login4"):
            import copy

            t2 = copy.deepcopy(t)
            t2["scen"]["actors"][0]["host"] = host
            t2["id"] += "-" + host
            st.append(t2)
    # resubmit-jobs as soon as the completion flag is on disk, i.e. while the completing process may still hold the role
    for g in ("pair", "chain2"):
        bb = S.REP[g]
        n = len(bb)
        for host in ("login1", "login7", "n102"):
            actors = [rec_actor(n), dict(name="resub", argv=resub_argv(1, 1, 1), host=host, guard="complete_any"),
                      dict(name="rec2", argv=["jade", "try-submit-jobs", "{out}"], host="login2", guard="idle_incomplete", after="resub", repeat=n + 2)]
            sc = mk_scen(bb, dict(size=1, max_nodes=None), actors=actors)
            st.append(dict(id=f"resub-at-completion-{g}-{host}", scen=sc, oracles=["Obs", "C10S"], budget=(0, 0), cls="resubmit-while-role-held"))
    # a user command arriving while another process is INSIDE a critical section (sync level L2, 1 preemption by or of
    # the intruder; its start is free): resubmit-jobs, cancel-jobs, try-submit-jobs
    intruders = [("resubmit", resub_argv(1, 1, 0)), ("trysubmit", ["jade", "try-submit-jobs", "{out}"]), ("cancel", ["jade", "cancel-jobs", "{out}"])]
    for g in (("single",) if tier == "quick" else ("single", "pair")):
        bb = S.REP[g]
        for nm, argv in intruders:
            for host in ("login7", "login1"):
                actors = [dict(name="intr", argv=argv, host=host, guard="submitted"), rec_actor(len(bb))]
                sc = mk_scen(bb, dict(size=1, max_nodes=None), actors=actors)
                sc["level"] = 2
                sc["preempt_focus"] = ["intr"]
                t = dict(id=f"intruder-{nm}-{g}-{host}-L2-b1", scen=sc, oracles=["Obs", "C10S"], budget=(1, 0), cls="intruder-L2")
                st += shard([t], 4)
    for t in st:
        t["id"] = "c10s-" + t["id"]
    tasks += st
    bounds += ("; system level: the submitter field on disk across real submit-jobs / run-jobs / try-submit-jobs processes (REP graphs, "
               f"{sb[0]} preemption(s); user-run try-submit-jobs at any point from the submitter's host and another; try-submit-jobs on a submission that is completing / complete; cancel-jobs at any point from three hosts; resubmit-jobs as soon as the completion flag is on disk (the completing process may still hold the role); a process that holds the role never has a write rejected; resubmit-jobs / try-submit-jobs / cancel-jobs started while another process is inside a critical section (sync level L2, 1 preemption by or of the intruder))")
    return explore_check("C10", tier, tasks, F_RULE + "; the system-level scenarios use the mode-S rule", F_ASSUMPTIONS + ["reference for return values/final files: the same operations executed one at a time in lock-acquisition order by the real Cluster class (linearizability witness); mutual exclusion, promotion and stale-write clauses are independent of it"], dict(bounds=bounds))


# ------------------------------------------------------------------------------ C12
def cyclic_tasks(oracles):
    tasks = []
    k = 0
    for bb in S.digraphs(3):
        if S._acyclic(bb):
            continue
        for tag, gkw in (("sz1", dict(size=1)), ("sz3", dict(size=3))):
            for fl in (0, 1):
                sc = mk_scen(bb, gkw, cancel=[fl] * 3, exit_codes=(1, 0, 0) if fl else None)
                tasks.append(dict(id=f"cyc{k}-{tag}-f{fl}", scen=sc, oracles=["Obs"] + oracles, budget=(0, 0), cls="cycle"))
        k += 1
    return tasks


@check("C12")
def c12(tier):
    tasks = []
    graphs = ["pair", "chain3", "fork", "join", "diamond", "twocomp"] if tier == "quick" else list(S.REP)
    params = [("sz1-mxN", dict(size=1, max_nodes=None)), ("sz2-mx2", dict(size=2, max_nodes=2))]
    fb = 1 if tier == "quick" else 2
    for flags in (0, 1):
        for t in rep_tasks(["C12"], (0, fb), graphs=graphs, params=params,
                           exit_sets=(lambda n: [None, (1,) + (0,) * (n - 1)]) if flags else None,
                           cancel_sets=(lambda n: [(1,) * n]) if flags else None):
            t["fault"] = dict(plan="c12")
            t["id"] += f"-fl{flags}-faults{fb}"
            t["cls"] = "faults+" + t["cls"]
            tasks.append(t)
    if tier == "thorough":
        for t in rep_tasks(["C12"], (1, 1), graphs=["chain3", "fork", "join", "twocomp"], params=params[:1]):
            t["fault"] = dict(plan="c12")
            t["id"] += "-p1f1"
            tasks.append(t)
        # node kill inside a result append (L2 points of the node's critical sections)
        for t in rep_tasks(["C12"], (0, 1), graphs=["pair", "chain3", "fork"], params=params[:1]):
            t["fault"] = dict(plan="c12", refuse=False)
            t["scen"]["level"] = 2
            t["id"] += "-L2"
            t["cls"] = "faults-L2"
            tasks.append(t)
    tasks += cyclic_tasks(["C12"])
    for t in rep_tasks(["C12"], (0, 1), graphs=["pair", "chain3"], params=params[:1]):
        n = len(t["scen"]["jobs"])
        a = dict(SHOW_STATUS_REC)
        a["repeat"] = n + 2
        t["scen"]["actors"] = [a]
        t["scen"]["foreign_jobs"] = ["777"]
        t["fault"] = dict(plan="c12")
        t["id"] += "-showstatus-foreignjobs"
        t["cls"] = "faults+show-status"
        tasks.append(t)
    if tier == "quick":
        # node kill at the L2 points of its job phase (inside the critical section of its results file)
        for t in rep_tasks(["C12"], (0, 1), graphs=["pair", "chain2"], params=params[:1]):
            t["fault"] = dict(plan="c12", refuse=False)
            t["scen"]["level"] = 2
            t["id"] += "-L2"
            t["cls"] = "faults-L2"
            tasks.append(t)
    # a user-run try-submit-jobs (at any point) racing with a node that is lost
    ur = user_round_tasks(["C12"], (1, 1), ["single", "chain2"] if tier == "quick" else ["single", "pair", "chain2", "indep3"],
                          params=[("sz1-mxN", dict(size=1, max_nodes=None))])
    for t in ur:
        t["fault"] = dict(plan="c12", refuse=False)
        t["cls"] = "faults+user-round"
    ur = [t for t in ur if "login7" in t["id"]]
    for t in ur:
        t["weight"] = 5
    tasks += shard([t for t in ur if "-single-" not in t["id"]], 16) + [t for t in ur if "-single-" in t["id"]]
    bounds = (f"{len(graphs)} REP graphs x 2 batchings (x failing job + cancel flags) with every set of <= {fb} faults out of: any sbatch refused on all attempts, "
              "any node killed at any sync point of its job phase (before start, before each launch, at each poll, between a job's exit and its result append, before its try-submit-jobs); "
              "then the re-armed recovery actor; all 39 cyclic digraphs on 3 jobs x 2 batch sizes x flags (no faults); a user-run try-submit-jobs at any point + 1 preemption + 1 node kill on 1-2 job graphs"
              + ("; 1 preemption + 1 fault on 4 graphs; kill points inside the node's critical sections (L2) on 3 graphs" if tier == "thorough" else ""))
    return explore_check("C12", tier, tasks, S_RULE + "; fault alternatives cost 1 from a separate fault budget", COMMON_ASSUMPTIONS + [
        "a refused sbatch is a clean failure (the scheduler did not accept the job); a killed node is gone from squeue at once",
        "a job whose process finished but whose row was not yet appended when the node died counts as missing"], dict(bounds=bounds))


# ------------------------------------------------------------------------------ C11
def c11_tasks(tier):
    tasks = []
    graphs = ["chain3", "indep3"] if tier == "quick" else ["chain3", "indep3", "fork", "join", "twocomp"]
    params = [("sz1-mx2", dict(size=1, max_nodes=2))] if tier == "quick" else [("sz1-mx2", dict(size=1, max_nodes=2)), ("sz2-mxN", dict(size=2, max_nodes=None))]
    for g in graphs:
        bb = S.REP[g]
        n = len(bb)
        for tag, gkw in params:
            for lockmode in ("never_break", "break_stale"):
                actors = [dict(name="rec", argv=["jade", "try-submit-jobs", "{out}"], host="login2", guard="idle_incomplete", repeat=2),
                          dict(name="recsame", argv=["jade", "try-submit-jobs", "{out}"], host="login1", guard="idle_incomplete", after="rec")]
                sc = mk_scen(bb, gkw, actors=actors, level=2, lockmode=lockmode, free_at_poll=True)
                for victims in (["login"], ["n"], ["rec"]):
                    t = dict(id=f"c11-{g}-{tag}-{lockmode}-{victims[0]}", scen=sc, oracles=["Obs", "C11"],
                             budget=(0, 1) if tier == "quick" else (0, 1), fault=dict(plan="c11", victims=victims),
                             cls=f"fault-in-round+{lockmode}")
                    tasks.append(t)
                if tier == "quick" and lockmode == "never_break":
                    # all batches in flight at once: a failing status query in a round that has nothing to submit
                    sc2 = mk_scen(bb, dict(size=1, max_nodes=None), actors=actors, level=2, lockmode=lockmode, free_at_poll=True)
                    tasks.append(dict(id=f"c11-{g}-sz1-mxN-{lockmode}-squeue", scen=sc2, oracles=["Obs", "C11"], budget=(0, 1),
                                      fault=dict(plan="c11", kinds=["squeue", "sbatch"]), cls=f"fault-in-round+{lockmode}"))
                if g == "chain3" and lockmode == "never_break" and tag == "sz1-mx2":
                    # a failing first job, a flagged dependent (canceled by the submitter) and an unflagged one behind it:
                    # a node round killed anywhere between the cancel, the hand-over of the next batch and the status update
                    sc3 = mk_scen(bb, gkw, actors=actors, level=2, lockmode=lockmode, free_at_poll=True, exit_codes=(1, 0, 0), cancel=(0, 1, 0))
                    tasks.append(dict(id=f"c11-{g}-{tag}-{lockmode}-fail-cancel-kill", scen=sc3, oracles=["Obs", "C11"], budget=(0, 1),
                                      fault=dict(plan="c11", victims=["n"], kinds=["kill", "write"]), cls=f"fault-in-round+failure+cancel-flag"))
                if tier == "thorough":
                    tasks += shard([dict(id=f"c11-{g}-{tag}-{lockmode}-p1", scen=sc, oracles=["Obs", "C11"], budget=(1, 1),
                                         fault=dict(plan="c11", victims=["login", "n"], kinds=["kill"]), cls=f"fault-in-round+{lockmode}")], 8)
    return tasks


@check("C11")
def c11(tier):
    tasks = c11_tasks(tier)
    bounds = ("REP graphs x batchings at sync level L2 (every lock operation, scheduler command, and every open/commit/rename/remove of the status and results files is a fault site) under both lock-library behaviours; "
              "victims: the login round, every node's try-submit-jobs round, the user's recovery rounds; one fault per history out of {kill at any site, sbatch failing once / on all attempts, squeue failing on all attempts, "
              "lock-acquisition timeout, EDQUOT at any write-open or commit (after truncation)}; one chain with a failing job, a submitter-canceled dependent and an unflagged job behind it (kill / EDQUOT in the node rounds); continuation = remaining nodes + two try-submit-jobs from another host + one from the login host"
              + ("; thorough adds 1 preemption of the survivors with kill faults" if tier == "thorough" else ""))
    return explore_check("C11", tier, tasks, S_RULE + "; fault alternatives cost 1 from a separate fault budget", COMMON_ASSUMPTIONS[:1] + [
        "sync level L2: inside critical sections every file operation is a scheduling/fault point; buffered-writer model (data reaches a file at close)",
        "a failed sbatch is a clean failure; lost acknowledgements and torn single writes are outside the fault model",
        "lock timeouts other than the injected one fire only at global quiescence"], dict(bounds=bounds))
