"""Task runner, evidence writer, replay files, known findings (DESIGN 1.7, 1.8, 6)."""

import hashlib
import json
import multiprocessing as mp
import os
import random
import sys
import time

from . import boot
from .engine import Explorer, HarnessError

VERIF = boot.VERIF
EVID = os.environ.get("JMC_EVID_DIR") or os.path.join(VERIF, "evidence")
REPLAYS = os.path.join(VERIF, "replays")
KNOWN = os.path.join(VERIF, "known_findings.json")
NCPU = int(os.environ.get("JMC_WORKERS", str(os.cpu_count() or 4)))


def seed():
    try:
        return int(os.environ.get("VERIF_SEED", "0"))
    except ValueError:
        return 0


# ------------------------------------------------------------------------------ S-mode tasks
def make_fault_plan(spec):
    if not spec:
        return None
    from . import faults

    return faults.PLANS[spec["plan"]](spec)


def _mk(task):
    from . import scen as S
    from . import modef  # noqa: F401  (registers the mode-F oracles)
    from .oracles import ORACLES

    sc = task["scen"]
    oracles = [ORACLES[n] for n in task["oracles"]]
    fp = task.get("fault")

    if task.get("world") == "F":
        from . import modef

        def mw():
            return modef.make_world_f(sc, oracles=oracles, fault_plan=make_fault_plan(fp))

        return mw

    def mw():
        return S.make_world(sc, oracles=oracles, fault_plan=make_fault_plan(fp))

    return mw


def run_task(task):
    """Explore one scenario up to its budget inside a worker process."""
    t0 = time.monotonic()
    boot.quiet()
    boot.mute_stdio()
    res = dict(id=task["id"], cls=task.get("cls", ""), executions=0, states=0, transitions=0,
               pruned=0, outcomes=[], violations=[], samples=[], notes=[], capped=None,
               nontrivial=0, max_depth=0, horizon_hits=0, error=None, finals=[])
    try:
        mw = _mk(task)
        nontriv = [0]
        finals = {}

        def on_x(x):
            f = x.final
            if f is not None:
                if f.get("nv", 2) >= 2:
                    nontriv[0] += 1
                k = repr(sorted((k, v) for k, v in f.items() if k in ("complete", "classes", "canceled")))
                finals[k] = finals.get(k, 0) + 1

        deadline = None
        if task.get("time_cap"):
            deadline = time.monotonic() + task["time_cap"]
        if task.get("deadline_at"):
            left = task["deadline_at"] - time.time()
            if left <= 0:
                res["capped"] = "not started (run budget)"
                res["wall"] = 0.0
                return res
            deadline = min(deadline, time.monotonic() + left) if deadline else time.monotonic() + left
        ex = Explorer(mw, budget=tuple(task.get("budget", (0, 0))), cache=task.get("cache", True),
                      max_exec=task.get("max_exec"), deadline=deadline, on_execution=on_x,
                      shard=tuple(task["shard"]) if task.get("shard") else None)
        if task.get("determinism_check"):
            a = ex.execute((), trace=True)
            b = ex.execute((), trace=True)
            if a.labels != b.labels or a.trace != b.trace:
                raise HarnessError("nondeterministic default execution for task %s" % task["id"])
            ex.transitions = 0
        ex.run()
        st = ex.stats()
        res.update(executions=st["executions"], states=st["states"] or 0,
                   transitions=st["transitions"], pruned=st["pruned"], capped=st["capped"],
                   max_depth=st["max_depth"], horizon_hits=st["horizon_hits"],
                   outcomes=sorted(ex.outcomes), samples=ex.samples[:2], notes=sorted(ex.notes),
                   nontrivial=nontriv[0], finals=sorted(finals))
        # confirm violations by replaying twice on fresh worlds
        seen = set()
        for v in ex.violations:
            key = (v["property"], v["sig"])
            if key in seen:
                continue
            seen.add(key)
            ok = True
            for _ in range(2):
                x = ex.execute(tuple(v["choices"]), expect=tuple(v["labels"]), trace=True)
                sigs = {(y["property"], y["sig"]) for y in x.violations}
                if key not in sigs:
                    ok = False
            if not ok:
                raise HarnessError(f"violation {key} of task {task['id']} did not replay")
            res["violations"].append(dict(property=v["property"], sig=v["sig"], message=v["message"],
                                          choices=v["choices"], labels=v["labels"], trace=v["trace"],
                                          task=task))
    except HarnessError as e:
        res["error"] = f"HarnessError: {e}"
    except Exception as e:  # noqa
        import traceback

        res["error"] = "worker exception: " + traceback.format_exc()
    finally:
        boot.unmute_stdio()
    res["wall"] = time.monotonic() - t0
    return res


def run_pool(func, tasks, procs=None):
    procs = procs or NCPU
    rnd = random.Random(seed())
    tasks = list(tasks)
    rnd.shuffle(tasks)  # the seed only permutes the visiting order, never the explored space
    # heavy tasks first (better load balance); the order never changes what is explored
    tasks.sort(key=lambda t: -(t.get("weight", 0) if isinstance(t, dict) else 0))
    if procs <= 1 or len(tasks) <= 1:
        for t in tasks:
            yield func(t)
        return
    ctx = mp.get_context("fork")
    with ctx.Pool(min(procs, len(tasks))) as pool:
        for r in pool.imap_unordered(func, tasks, chunksize=1):
            yield r


# ------------------------------------------------------------------------------ findings / replays
def load_known():
    try:
        with open(KNOWN) as f:
            return json.load(f)
    except (OSError, ValueError):
        return {"findings": [], "fixed": []}


def match_known(known, prop, finding_key):
    for k in known.get("findings", []):
        if k.get("property") == prop and k.get("key") == finding_key:
            return k
    return None


def write_replay(prop, v):
    os.makedirs(REPLAYS, exist_ok=True)
    t = v.get("task")
    if t and isinstance(t.get("scen"), dict):
        t = dict(t)
        t["scen"] = {k: x for k, x in t["scen"].items() if k not in ("base_env", "scratch")}
        v = dict(v)
        v["task"] = t
    payload = dict(property=prop, sig=v.get("sig"), message=v.get("message"), task=v.get("task"),
                   choices=v.get("choices"), labels=v.get("labels"), trace=v.get("trace"),
                   kind=v.get("kind", "schedule"), case=v.get("case"), check=v.get("check"),
                   tier=v.get("tier"))
    h = hashlib.blake2b(json.dumps(payload, sort_keys=True, default=str).encode(), digest_size=6).hexdigest()
    path = os.path.join(REPLAYS, f"{prop}-{h}.json")
    with open(path, "w") as f:
        json.dump(payload, f, indent=1, default=str)
    return path


def finding_key(v):
    """Specific identity of a violation: oracle clause + scenario class."""
    t = v.get("task") or {}
    return f"{v.get('sig')}@{t.get('cls') or v.get('cls') or ''}"


# ------------------------------------------------------------------------------ evidence
def write_evidence(prop, tier, level, coverage, assumptions, wall, nviol):
    os.makedirs(EVID, exist_ok=True)
    ev = dict(property_id=prop, tier=tier, seed=seed(), level=level, coverage=coverage,
              assumptions=assumptions, wall_s=round(wall, 2), violations=nviol)
    path = os.path.join(EVID, f"{prop}.json")
    tmp = path + ".tmp"
    with open(tmp, "w") as f:
        json.dump(ev, f, indent=1, default=str)
    os.replace(tmp, path)
    return path


def finish(prop, tier, level, coverage, assumptions, t0, violations, errors):
    """Common tail of every check: known findings, replay files, evidence, exit code."""
    known = load_known()
    new = []
    kf_lines = []
    seen_keys = set()
    for v in violations:
        key = finding_key(v)
        k = match_known(known, prop, key)
        if k is not None:
            if key not in seen_keys:
                kf_lines.append(f"KNOWN-FINDING: property={prop} {k.get('what', key)}")
            seen_keys.add(key)
            continue
        new.append(v)
    coverage = dict(coverage)
    coverage["known_findings_matched"] = sorted(seen_keys)
    wall = time.monotonic() - t0
    write_evidence(prop, tier, level, coverage, assumptions, wall, len(new))
    for line in kf_lines:
        boot.say(line)
    if errors:
        for e in errors[:5]:
            boot.say("HARNESS-ERROR " + str(e)[:2000])
        return 2
    if new:
        done = set()
        for v in new:
            key = finding_key(v)
            if key in done:
                continue
            done.add(key)
            path = write_replay(prop, v)
            boot.say(f"VIOLATION property={prop} replay={path}")
            boot.say(f"  {v.get('message')}")
        return 1
    boot.say(f"OK property={prop} tier={tier} wall={wall:.1f}s " +
             " ".join(f"{k}={coverage[k]}" for k in ("evaluations", "states", "transitions", "distinct_nontrivial")
                      if k in coverage))
    return 0


def explore_check(prop, tier, tasks, rule, assumptions, extra_cov=None, level="model_checking"):
    """Run S/F-mode tasks on the pool and write evidence.  Returns exit code."""
    t0 = time.monotonic()
    if tier == "thorough":
        # thorough: leaving a process that waits at a poll (running jobs) never costs a preemption
        os.environ.setdefault("JMC_FREE_AT_POLL", "1")
    cap = float(os.environ.get("JMC_TASK_CAP", "1200" if tier == "thorough" else "900"))
    if cap:
        # every task has a wall-clock cap (quick: 900 s, far above what any task needs on the unchanged tree); a task that hits it is reported under
        # caps_hit and makes the run non-exhaustive (never silently)
        for t in tasks:
            t.setdefault("time_cap", cap)
    budget = float(os.environ.get("JMC_RUN_BUDGET", "2700" if tier == "thorough" else "0"))
    if budget:
        # ... and the whole run has a wall-clock budget: tasks that cannot start before it ends are
        # reported as "not started (run budget)" in caps_hit
        for t in tasks:
            t["deadline_at"] = time.time() + budget
    tot = dict(executions=0, states=0, transitions=0, pruned=0, nontrivial=0)
    outcomes = set()
    violations = []
    errors = []
    samples = []
    caps = []
    only = os.environ.get("JMC_ONLY")
    if only:
        # debugging aid: run the tasks whose id contains the given text; the run says so in caps_hit
        n_all = len(tasks)
        tasks = [t for t in tasks if only in t["id"]]
        caps.append(f"JMC_ONLY={only}: {len(tasks)} of {n_all} tasks run")
    notes = set()
    ntasks = 0
    max_depth = 0
    slow = []
    for r in run_pool(run_task, tasks):
        ntasks += 1
        slow.append((round(r.get("wall", 0), 1), r["id"], r["executions"]))
        slow.sort(reverse=True)
        del slow[6:]
        if r["error"]:
            errors.append(f"task {r['id']}: {r['error']}")
            continue
        for k in tot:
            tot[k] += r[k]
        for o in r["outcomes"]:
            outcomes.add((r["id"], o))
        for v in r["violations"]:
            if v["property"] == prop:
                violations.append(v)
        if r["capped"]:
            caps.append(f"{r['id']}: {r['capped']}")
        if r["horizon_hits"]:
            caps.append(f"{r['id']}: horizon x{r['horizon_hits']}")
        notes.update(r["notes"])
        max_depth = max(max_depth, r["max_depth"])
        if len(samples) < 4 and r["samples"]:
            samples.append(dict(task=r["id"], schedule=r["samples"][0][:60]))
    cov = dict(
        evaluations=tot["executions"],
        distinct_nontrivial=tot["nontrivial"],
        rule=rule,
        samples=samples or [{"note": "no execution completed"}],
        states=tot["states"],
        transitions=tot["transitions"],
        traces_validated_against_impl=tot["executions"],
        exhaustive=not caps,
        scenarios=ntasks,
        pruned_revisits=tot["pruned"],
        distinct_outcomes=len(outcomes),
        max_depth=max_depth,
        caps_hit=caps[:20],
        slowest_tasks=slow,
        notes=sorted(notes),
        explanation="every explored trace is an execution of the implementation itself "
                    "(no separate model): traces_validated_against_impl == executions",
    )
    if extra_cov:
        cov.update(extra_cov)
    return finish(prop, tier, level, cov, assumptions, t0, violations, errors)
