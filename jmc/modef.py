"""Mode F: all interleavings of tiny drivers calling one real component (ResultsAggregator, Cluster)
with a sync point at every lock operation and every file operation (level 3 + write proxy)."""

import hashlib
import json
import os
import shutil

from . import boot
from . import scen as S
from .engine import World, raw, tls
from .sim import SimSlurm
from .oracles import PropOracle, ORACLES, read_rows, read_json

STATE_FILES = ("cluster_config.json", "job_status.json", "config_version.txt", "job_status_version.txt")


def make_world_f(scen, oracles=(), fault_plan=None):
    base = S.base_dir()
    boot.reset_module_state()
    shutil.rmtree(base, ignore_errors=True)
    os.makedirs(base + "/scratch")
    root = base + "/out"
    os.makedirs(root)
    scen.setdefault("base_env", S.base_env())
    scen["scratch"] = base + "/scratch"
    w = World(root, scen, level=scen.get("level", 3), lockmode=scen.get("lockmode", "never_break"),
              oracles=[o() if isinstance(o, type) else o for o in oracles], fault_plan=fault_plan)
    SimSlurm(w)
    SETUPS[scen["setup"]](w)
    w.emit("init")
    for d in scen["drivers"]:
        fn = DRIVERS[d["kind"]]
        w.spawn(d["name"], d.get("host", "h1"), dict(scen["base_env"]), (lambda fn=fn, d=d: fn(d)), kind="user")
    return w


SETUPS = {}
DRIVERS = {}


def _reg(table, name):
    def deco(f):
        table[name] = f
        return f

    return deco


# =============================================================================== C08
@_reg(SETUPS, "results")
def _setup_results(w):
    from jade.jobs.results_aggregator import ResultsAggregator

    os.makedirs(w.root + "/results")
    ResultsAggregator.create(w.root)


def _result(spec):
    from jade.enums import JobCompletionStatus
    from jade.result import Result

    name, rc, status, batch = spec
    st = JobCompletionStatus.CANCELED if status == "canceled" else JobCompletionStatus.FINISHED
    return Result(name, rc, st, 1.5 if status != "canceled" else 0.0, completion_time=1700000000.0,
                  hpc_job_id=str(100 + batch) if batch else None)


@_reg(DRIVERS, "appender")
def _drv_appender(d):
    from jade.jobs.results_aggregator import ResultsAggregator

    vp = tls.vproc
    for spec in d["rows"]:
        ResultsAggregator.append(vp.world.root, _result(spec), batch_id=spec[3])
        vp.world.emit("appended", vp=vp, spec=tuple(spec))
    return 0


@_reg(DRIVERS, "collector")
def _drv_collector(d):
    from jade.jobs.results_aggregator import ResultsAggregator

    vp = tls.vproc
    agg = ResultsAggregator.load(vp.world.root)
    for _ in range(d.get("rounds", 2)):
        got = agg.process_results()
        vp.world.emit("collected", vp=vp, rows=[(r.name, r.return_code, r.status, r.exec_time_s, r.completion_time, r.hpc_job_id) for r in got])
    for spec in d.get("own", ()):
        agg.append_result(_result(spec))
        vp.world.emit("appended_processed", vp=vp, spec=tuple(spec))
    return 0


@_reg(DRIVERS, "reader")
def _drv_reader(d):
    from jade.jobs.results_aggregator import ResultsAggregator

    vp = tls.vproc
    got = ResultsAggregator.list_results(vp.world.root)
    vp.world.emit("listed", vp=vp, rows=[(r.name, r.return_code, r.status) for r in got])
    return 0


def _row_tuple(spec):
    r = _result(spec)
    return (r.name, r.return_code, r.status, r.exec_time_s, r.completion_time, r.hpc_job_id)


class C08(PropOracle):
    """Results collected exactly once under concurrent writers."""

    prop = "C08"

    def __init__(self):
        self.appended = []
        self.own = []
        self.collected = []
        self.nparse = 0

    def digest(self):
        return repr((sorted(self.appended), sorted(self.own), sorted(map(str, self.collected))))

    def on_appended(self, w, vp, d):
        self.appended.append(_row_tuple(d["spec"]))

    def on_appended_processed(self, w, vp, d):
        self.own.append(_row_tuple(d["spec"]))

    def on_collected(self, w, vp, d):
        for r in d["rows"]:
            self.collected.append(tuple(r))
            if self.collected.count(tuple(r)) > 1:
                self.v(w, f"result {r[0]} reported as newly completed twice (second time to {vp.name})", "collected-twice")
            if tuple(r) not in self.appended:
                self.v(w, f"collector {vp.name} reported a row that no runner wrote: {r}", "collected-unknown-row")

    def on_listed(self, w, vp, d):
        names = [r[0] for r in d["rows"]]
        if len(names) != len(set(names)):
            self.v(w, f"list_results returned duplicates: {names}", "listed-duplicates")

    def _parses(self, w, path, rel):
        from jade.jobs.results_aggregator import ResultsAggregator
        from pathlib import Path

        try:
            ResultsAggregator(Path(path)).get_results_unsafe()
        except FileNotFoundError:
            return
        except Exception as e:  # noqa
            self.v(w, f"{rel} does not parse while its lock is free: {type(e).__name__}: {e}", "unparsable-file")

    def on_transition(self, w, vp, d):
        for rel in list(w.written):
            if rel.endswith(".csv") and not os.path.exists(w.rootp + rel + ".lock"):
                self._parses(w, w.rootp + rel, rel)
        for rel in list(w.written):
            if rel.endswith(".csv.lock") and not os.path.exists(w.rootp + rel):
                self._parses(w, w.rootp + rel[:-5], rel[:-5])

    def on_end(self, w, vp, d):
        for v_ in w.vprocs:
            if v_.status == "crashed":
                self.v(w, f"driver {v_.name} raised {v_.exc}", "driver-exception")
        if w.lock_notes:
            self.v(w, f"results file accessed without its lock: {sorted(w.lock_notes)[:3]}", "unlocked-access")
        # everything still on disk in node files counts as 'not yet collected'
        from jade.jobs.results_aggregator import ResultsAggregator

        pending = []
        rd = w.root + "/results"
        for n in sorted(os.listdir(rd)):
            if n.endswith(".csv"):
                for r in read_rows(rd + "/" + n) or []:
                    pending.append(r.get("name"))
        app = sorted(self.appended)
        col = sorted(self.collected)
        col_names = sorted([c[0] for c in self.collected] + pending)
        if col_names != sorted(a[0] for a in self.appended):
            self.v(w, f"rows written by runners {sorted(a[0] for a in self.appended)} != collected {sorted(c[0] for c in self.collected)} + still in node files {sorted(pending)}",
                   "row-lost-or-duplicated")
        for c in self.collected:
            if c not in self.appended:
                self.v(w, f"collected row {c} differs from what was written", "row-corrupted")
        try:
            final = [(r.name, r.return_code, r.status, r.exec_time_s, r.completion_time, r.hpc_job_id)
                     for r in ResultsAggregator.list_results(w.root)]
        except Exception as e:  # noqa
            self.v(w, f"consolidated file does not parse at the end: {type(e).__name__}: {e}", "final-unparsable")
            return
        want = sorted(map(str, list(self.collected) + self.own))
        if sorted(map(str, final)) != want:
            self.v(w, f"consolidated results {sorted(map(str, final))} != collected + submitter appends {want}", "final-mismatch")
        w.data["final"] = dict(nv=len(w.vprocs), complete=True, classes=tuple(sorted(map(str, final))))
        w.data["outcome"] = hashlib.blake2b(repr((sorted(map(str, final)), sorted(pending))).encode(), digest_size=8).hexdigest()


ORACLES["C08"] = C08

A1 = dict(name="A1", kind="appender", host="n101", rows=[("j1", 0, "finished", 1), ("j2", 1, "canceled", 1)])
A2 = dict(name="A2", kind="appender", host="n102", rows=[("j3", -9, "finished", 2)])  # -9: the job was killed by a signal
A3 = dict(name="A3", kind="appender", host="n103", rows=[("j4", 0, "finished", 1)])
R1 = dict(name="R1", kind="collector", host="n101", rounds=2, own=[("k1", 1, "canceled", 0)])
R2 = dict(name="R2", kind="collector", host="login1", rounds=2, own=[("k2", 1, "canceled", 0)])
RD = dict(name="RD", kind="reader", host="login2")


# =============================================================================== C10
@_reg(SETUPS, "cluster")
def _setup_cluster(w):
    from jade.jobs.cluster import Cluster

    sc = S.scenario([S.job("a"), S.job("b", ["a"]), S.job("c")], groups=[S.group(size=1)])
    cfg = S.build_config(sc)
    import socket

    cl = Cluster.create(w.root, cfg)
    cl.demote_from_submitter()
    # one batch is "active" so that complete_hpc_job_id has something to remove
    jobs = list(cl.iter_jobs())
    cl, _ = Cluster.deserialize(w.root, deserialize_jobs=True)
    cl._do_action_under_lock(lambda: (setattr(cl.job_status, "hpc_job_ids", ["7"]), cl._serialize_jobs("setup")))


def _snap(root):
    out = {}
    for n in STATE_FILES:
        try:
            with open(os.path.join(root, n), "rb") as f:
                out[n] = f.read().replace(root.encode(), b"<ROOT>")
        except OSError:
            out[n] = None
    return out


def _apply_op(h, op, root):
    """Run one operation on handle state h (dict with 'c').  Returns a short result tuple."""
    from jade.jobs.cluster import Cluster
    from jade.models import JobState

    c = h.get("c")
    if op == "D":
        c, promoted = Cluster.deserialize(root, try_promote_to_submitter=False, deserialize_jobs=True)
        h["c"] = c
        return ("D", promoted)
    if op == "P":
        c, promoted = Cluster.deserialize(root, try_promote_to_submitter=True, deserialize_jobs=True)
        h["c"] = c
        h["promoted"] = h.get("promoted") or promoted
        return ("P", promoted)
    if op == "Pn":
        # the same promotion without loading the job status (deserialize_jobs=False, the API's default)
        c, promoted = Cluster.deserialize(root, try_promote_to_submitter=True, deserialize_jobs=False)
        h["c"] = c
        h["promoted"] = h.get("promoted") or promoted
        return ("P", promoted)
    if op == "p":
        r = c.promote_to_submitter()
        h["promoted"] = h.get("promoted") or r
        return ("p", r)
    if op == "d":
        if not h.get("promoted"):
            return ("d", "skipped: not promoted")  # JADE only demotes a role it obtained
        c.demote_from_submitter()
        h["promoted"] = False
        return ("d", None)
    if op.startswith("us"):
        name = op[2:] or "a"
        job = next(j for j in c.iter_jobs() if j.name == name)
        c.update_job_status([job], [], [], set(), ["7", "8"], 3)
        return (op, None)
    if op.startswith("uc"):
        name = op[2:] or "a"
        c.update_job_status([], [], [], {name}, [], 3)
        return (op, None)
    if op == "m":
        c.mark_complete()
        return ("m", None)
    if op == "h":
        c.complete_hpc_job_id("7")
        return ("h", None)
    if op == "g":
        s = c.get_status_summary(include_jobs=True)
        return ("g", json.dumps(s, sort_keys=True, default=str))
    raise ValueError(op)


WRITES = {"P": ("config",), "p": ("config",), "d": ("config",), "us": ("config", "status"), "uc": ("config", "status"),
          "m": ("config",), "h": ("status",)}


@_reg(DRIVERS, "handle")
def _drv_handle(d):
    vp = tls.vproc
    w = vp.world
    h = {}
    vp.data["h"] = h
    for i, op in enumerate(d["ops"]):
        pre = None
        c = h.get("c")
        with raw():
            info = dict(vp=vp, op=op, i=i,
                        local_cv=(c.config.version if c is not None else None),
                        local_sv=(c.job_status.version if c is not None and c.job_status is not None else None),
                        local_submitter=(c.config.submitter if c is not None else None))
        w.emit("op_start", **info)
        try:
            r = _apply_op(h, op, w.root)
            exc = None
        except Exception as e:  # noqa
            from .engine import Abort

            r = None
            exc = type(e).__name__
        w.emit("op_end", vp=vp, op=op, i=i, result=r, exc=exc)
        if exc is not None:
            break  # JADE processes die on these exceptions
    return 0


class C10(PropOracle):
    """One submitter at a time; stale state never overwrites newer state."""

    prop = "C10"

    def __init__(self):
        self.role = None  # name of the driver that holds the submitter role
        self.order = []  # (driver, op index) in lock-acquisition order
        self.cur = {}  # driver -> dict(op info, snap at acquisition)
        self.results = {}  # (driver, i) -> (result, exc)
        self.in_cs = None
        self.poisoned = False

    def digest(self):
        return repr((self.role, self.order, sorted((k, str(v)) for k, v in self.results.items()), self.poisoned))

    def on_op_start(self, w, vp, d):
        self.cur[vp.name] = dict(d, acquired=False)

    def on_acquired(self, w, vp, d):
        if d["rel"] != "cluster_config.json.lock":
            return
        if self.in_cs is not None:
            self.v(w, f"{vp.name} entered the cluster critical section while {self.in_cs} is inside", "mutual-exclusion")
        self.in_cs = vp.name
        cur = self.cur.get(vp.name)
        if cur is None or cur["acquired"]:
            return
        cur["acquired"] = True
        cur["snap"] = _snap(w.root)
        cur["disk_cv"] = _int(cur["snap"]["config_version.txt"])
        cur["disk_sv"] = _int(cur["snap"]["job_status_version.txt"])
        cur["disk_cfg"] = json.loads(cur["snap"]["cluster_config.json"] or b"{}")
        try:
            cur["json_sv"] = json.loads(cur["snap"]["job_status.json"] or b"{}").get("version")
        except ValueError:
            cur["json_sv"] = None
        cur["json_cv"] = cur["disk_cfg"].get("version")
        self.order.append((vp.name, cur["i"]))

    def on_killed(self, w, vp, d):
        if self.in_cs == vp.name:
            self.in_cs = None  # a dead process is not inside; its marker may be broken by the survivor
        if self.role == vp.name:
            self.role = None
        self.cur.pop(vp.name, None)

    def on_released(self, w, vp, d):
        if d["rel"] == "cluster_config.json.lock" and self.in_cs == vp.name:
            self.in_cs = None
            cur = self.cur.get(vp.name)
            if cur is not None and cur.get("acquired") and "after" not in cur:
                cur["after"] = _snap(w.root)  # the op's own effect: state when it leaves the section

    def on_op_end(self, w, vp, d):
        cur = self.cur.pop(vp.name, None)
        if cur is None:
            return
        op, r, exc = d["op"], d["result"], d["exc"]
        self.results[(vp.name, d["i"])] = (r, exc)
        kind = op[:2] if op[:2] in ("us", "uc") else ("P" if op == "Pn" else op)
        if exc == "Timeout":
            return
        if not cur.get("acquired"):
            if kind in WRITES and not (kind == "p" and r == ("p", False)) and not (kind == "d" and r is not None and r[1] is not None):
                self.v(w, f"{vp.name}: {op} finished without taking the cluster lock", "no-lock")
            return
        after = cur.get("after") or _snap(w.root)
        # "out of date" is judged against the state files themselves (the version files are JADE's mechanism,
        # not the ground truth; they only differ from the JSON files after a crash between the two writes)
        tc = cur.get("json_cv") if cur.get("json_cv") is not None else cur["disk_cv"]
        ts = cur.get("json_sv") if cur.get("json_sv") is not None else cur["disk_sv"]
        stale_c = cur["local_cv"] is not None and cur["local_cv"] != tc
        stale_s = cur["local_sv"] is not None and cur["local_sv"] != ts
        writes = WRITES.get(kind, ())
        if kind in ("D", "P"):
            stale_c = stale_s = False  # loads fresh state under the lock
        must_reject = ("config" in writes and stale_c and not (kind == "p" and cur["local_submitter"] is not None)) or \
                      ("status" in writes and stale_s)
        if exc in ("ConfigVersionMismatch", "JobStatusVersionMismatch"):
            if after != cur["snap"]:
                changed = [n for n in STATE_FILES if after[n] != cur["snap"][n]]
                self.v(w, f"{vp.name}: {op} was rejected with {exc} but changed {changed} on disk "
                          f"(local versions config={cur['local_cv']} status={cur['local_sv']}, disk {cur['disk_cv']}/{cur['disk_sv']})",
                       "rejected-write-changed-files")
            if not must_reject and not w.data.get("faulty"):
                self.v(w, f"{vp.name}: {op} rejected with {exc} although its copy was current", "spurious-mismatch")
        elif must_reject and exc is None:
            self.v(w, f"{vp.name}: {op} with an out-of-date copy (local config={cur['local_cv']} status={cur['local_sv']}, "
                      f"disk {cur['disk_cv']}/{cur['disk_sv']}) was written instead of being rejected", "stale-write-accepted")
        # submitter role
        promoted = (kind == "P" and r == ("P", True)) or (kind == "p" and r == ("p", True))
        if promoted:
            if cur["disk_cfg"].get("submitter") is not None:
                self.v(w, f"{vp.name} was promoted while {cur['disk_cfg'].get('submitter')} is the submitter on disk", "promoted-while-held")
            if self.role is not None and self.role != vp.name:
                self.v(w, f"{vp.name} was promoted while {self.role} holds the submitter role", "two-submitters")
            self.role = vp.name
        if kind == "d" and exc is None and r == ("d", None) and self.role == vp.name:
            self.role = None

    def on_end(self, w, vp, d):
        if w.lock_notes:
            self.v(w, f"cluster state accessed without the lock: {sorted(w.lock_notes)[:3]}", "unlocked-access")
        if w.data.get("faulty"):
            w.data["final"] = dict(nv=len(w.vprocs), complete=True, classes=tuple(sorted(map(str, self.results.items()))))
            w.data["outcome"] = hashlib.blake2b(repr(sorted(map(str, self.results.items()))).encode(), digest_size=8).hexdigest()
            return
        # linearizability witness: the same operations run sequentially in lock-acquisition order
        ref = sequential_reference(w.scen, self.order)
        final = _snap(w.root)
        if ref is not None:
            rres, rfinal = ref
            for k, v in rres.items():
                if k in self.results and self.results[k] != v and self.results[k][1] != "Timeout" and v[1] != "Timeout":
                    self.v(w, f"operation {k}: concurrent result {self.results[k]} != sequential result {v} in lock order {self.order}", "not-linearizable-result")
            if all(v[1] != "Timeout" for v in list(self.results.values()) + list(rres.values())) and rfinal != final:
                ch = [n for n in STATE_FILES if rfinal[n] != final[n]]
                self.v(w, f"final files {ch} differ from the sequential run in lock order {self.order}", "not-linearizable-state")
        w.data["final"] = dict(nv=len(w.vprocs), complete=True, classes=tuple(sorted(map(str, self.results.items()))))
        w.data["outcome"] = hashlib.blake2b(repr((sorted(map(str, self.results.items())), final)).encode(), digest_size=8).hexdigest()


def _int(b):
    try:
        return int((b or b"").strip())
    except ValueError:
        return None


_ref_cache = {}


def sequential_reference(scen, order):
    """Run the drivers' operations one at a time, in `order`, on a fresh directory (no vprocs)."""
    key = (json.dumps([(d["name"], d["host"], d["ops"]) for d in scen["drivers"]]), tuple(order))
    if key in _ref_cache:
        return _ref_cache[key]
    from . import intercept

    base = S.base_dir()
    root = base + "/ref"
    shutil.rmtree(root, ignore_errors=True)
    os.makedirs(root)

    class W:
        pass

    w = W()
    w.root = root
    saved = getattr(tls, "vproc", None)
    import socket

    handles = {d["name"]: {} for d in scen["drivers"]}
    hosts = {d["name"]: d["host"] for d in scen["drivers"]}
    ops = {d["name"]: d["ops"] for d in scen["drivers"]}
    res = {}
    real_gethost = socket.gethostname
    try:
        # run outside any vproc: locks are immediate, files are real
        tls.vproc = None
        _setup_cluster(w)
        dead = set()
        for name, i in order:
            if name in dead:
                continue
            socket.gethostname = lambda n=hosts[name]: n
            import jade.jobs.cluster as jc

            jc.socket.gethostname = socket.gethostname
            h = handles[name]
            if h.get("c") is not None:
                h["c"]._hostname = hosts[name]
            try:
                r = _apply_op(h, ops[name][i], root)
                exc = None
            except Exception as e:  # noqa
                r, exc = None, type(e).__name__
                dead.add(name)
            res[(name, i)] = (r, exc)
        out = (res, _snap(root))
    finally:
        socket.gethostname = real_gethost
        import jade.jobs.cluster as jc

        jc.socket.gethostname = real_gethost
        tls.vproc = saved
    if len(_ref_cache) > 20000:
        _ref_cache.clear()
    _ref_cache[key] = out
    return out


ORACLES["C10"] = C10
