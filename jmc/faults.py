"""Fault plans (DESIGN 1.5): which fault alternatives are offered at which sync point.
A plan is a function (world, vproc, op) -> list of alternative labels, each costing 1 from the
fault budget.  'kill' is executed by the engine; the others are returned to the intercepted
operation, which raises / answers what the real call would."""

CL = "cluster_config.json.lock"

PLANS = {}


def plan(name):
    def deco(f):
        PLANS[name] = f
        return f

    return deco


def _in_job_phase(v):
    """A node before it first takes the cluster lock (i.e. before its try-submit-jobs)."""
    if v.kind != "node":
        return False
    # (in a pipeline the lock lives in the stage's directory: output-stage<k>/cluster_config.json.lock)
    return not any(k.startswith("acq:") and k.endswith(CL) and n for k, n in v.data.items())


@plan("c12")
def _c12(spec):
    kill_nodes = spec.get("kill_nodes", True)
    refuse = spec.get("refuse", True)

    def p(w, v, op):
        out = []
        if refuse and op.kind == "cmd" and op.data and op.data.get("prog") == "sbatch":
            script = op.detail.split()[-1]
            if script not in w.sim.sticky_refused:
                out.append("fail-all")
        if kill_nodes and _in_job_phase(v) and op.kind in ("start", "launch", "poll", "acquire", "file", "release"):
            out.append("kill")
        return out

    return p


@plan("c11")
def _c11(spec):
    """Faults inside submitter rounds: login, nodes once they are in try-submit-jobs, user rounds."""
    kinds = set(spec.get("kinds", ("kill", "sbatch", "squeue", "lock", "write")))
    victims = spec.get("victims")  # None = all; else list of name prefixes
    from_epoch = spec.get("from_epoch", 0)  # faults only from the k-th resubmission on
    write_paths = spec.get("write_paths")  # EDQUOT only at these files (None = any)

    def p(w, v, op):
        if v.kind == "node" and _in_job_phase(v):
            return []
        if from_epoch and int(w.data.get("epoch", 0)) < from_epoch:
            return []
        if victims is not None and not any(v.name.startswith(x) for x in victims):
            return []
        if v.kind == "user" and v.nsync <= 1 and op.kind == "start":
            return []
        out = []
        if "kill" in kinds and op.kind != "exit":
            out.append("kill")
        if op.kind == "cmd" and op.data:
            prog = op.data.get("prog")
            if prog == "sbatch" and "sbatch" in kinds:
                script = op.detail.split()[-1]
                if script not in w.sim.sticky_refused:
                    out += ["fail", "fail-all"]
            if prog == "squeue" and "squeue" in kinds and v.index not in w.sim.squeue_down:
                out.append("fail-all")
            if prog == "scancel" and "scancel" in kinds:
                out.append("fail")
        if op.kind == "acquire" and "lock" in kinds:
            out.append("lock-timeout")
        if op.kind == "file" and "write" in kinds and (op.detail.startswith("open-w") or op.detail.startswith("commit")):
            if write_paths is None or op.detail.split()[-1] in write_paths:
                out.append("edquot")
        return out

    return p


@plan("joblock")
def _joblock(spec):
    """A node in its job phase: the acquisition of its results-file lock times out (another process sat on it for
    300 s) when a finished job's result is to be appended."""

    def p(w, v, op):
        if v.kind == "node" and _in_job_phase(v) and op.kind == "acquire" and ".csv.lock" in (op.detail or ""):
            return ["lock-timeout"]
        return []

    return p


@plan("kill_any")
def _kill_any(spec):
    """Mode F: any driver may be killed at any sync point after its start."""
    names = spec.get("victims")

    def p(w, v, op):
        if op.kind in ("start", "exit"):
            return []
        if names is not None and v.name not in names:
            return []
        return ["kill"]

    return p
