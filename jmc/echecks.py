"""Mode-E sub-checks for C17, C18, C19, C20 (DESIGN section 3)."""

import itertools
import re
import json
import os
import shlex
import shutil
import sys

from . import boot
from .modee import EnumCheck, register, V, scratch

# =============================================================================== C18
SLURM_OPT = {
    "gres": ("gpu:1", "gpu:2"),
    "mem": ("4G", "100G"),
    "nodes": (1, 2),
    "ntasks": (1, 4),
    "ntasks_per_node": (1, 36),
    "partition": ("debug", "long"),
    "qos": ("high", "normal"),
    "tmp": ("1T", "10G"),
    "reservation": ("r1", "res_2"),
}
SLURM_ORDER = ("gres", "mem", "nodes", "ntasks", "ntasks_per_node", "partition", "qos", "tmp", "reservation")


def ref_script(name, script, path, account, walltime, opts):
    lines = ["#!/bin/bash", f"#SBATCH --account={account}", f"#SBATCH --job-name={name}",
             f"#SBATCH --time={walltime}", f"#SBATCH --output={path}/job_output_%j.o",
             f"#SBATCH --error={path}/job_output_%j.e"]
    o = dict(opts)
    if all(o.get(k) is None for k in ("nodes", "ntasks", "ntasks_per_node")):
        o["nodes"] = 1  # documented default of the SLURM model
    for k in SLURM_ORDER:
        if o.get(k) is not None:
            lines.append(f"#SBATCH --{k}={o[k]}")
    lines.append("")
    lines.append(f"srun {script}")
    return "\n".join(lines) + "\n"


@register("c18_script")
class C18Script(EnumCheck):
    """Every subset of the 9 optional SLURM fields x 2 values -> script text == reference."""

    def cases(self):
        out = []
        for combo in itertools.product((None, 0, 1), repeat=len(SLURM_ORDER)):
            out.append(combo)
        return out

    def begin(self):
        self.dir = scratch("c18")

    def evaluate(self, combo):
        from jade.hpc.hpc_manager import HpcManager
        from jade.models import HpcConfig, SubmissionGroup, SubmitterParams
        from jade.enums import Status

        opts = {k: (None if c is None else SLURM_OPT[k][c]) for k, c in zip(SLURM_ORDER, combo)}
        acct = "acct%d" % (sum(1 for c in combo if c is not None) % 3)
        wall = ("4:00:00", "0:30:00", "48:00:00")[sum(c or 0 for c in combo) % 3]
        hp = {"account": acct, "walltime": wall}
        hp.update({k: v for k, v in opts.items() if v is not None})
        g1 = SubmissionGroup(name="g1", submitter_params=SubmitterParams(
            hpc_config=HpcConfig(hpc_type="slurm", hpc=hp)))
        g2 = SubmissionGroup(name="g2", submitter_params=SubmitterParams(
            hpc_config=HpcConfig(hpc_type="slurm", hpc={"account": "other", "walltime": "1:00:00"})))
        out = self.dir
        mgr = HpcManager({"g2": g2, "g1": g1}, out)
        res = []
        # two batches per group through the same manager object (a submitter round creates several scripts in a row)
        for gname, exp_opts, ea, ew, bn in (("g1", opts, acct, wall, 1), ("g2", {}, "other", "1:00:00", 2),
                                            ("g1", opts, acct, wall, 3), ("g2", {}, "other", "1:00:00", 14)):
            name = f"job_batch_{bn}"
            script = os.path.join(out, f"run_batch_{bn}.sh")
            job_id, status = mgr.submit(out, name, script, gname, dry_run=True)
            if status != Status.GOOD:
                res.append(V("dry-run-status", f"dry-run submit returned {status}"))
            with open(os.path.join(out, name + ".sh")) as f:
                text = f.read()
            exp = ref_script(name, script, out, ea, ew, exp_opts)
            if text != exp:
                res.append(V("script-text", f"submission script {name} for group {gname} with {exp_opts}:\n{text!r}\n!= reference\n{exp!r}"))
        return res

    def nontrivial(self, c):
        return any(x is not None for x in c)

    def kind(self, c):
        return "fields=%d" % sum(1 for x in c if x is not None)


SLURM_STATES = ["BOOT_FAIL", "CANCELLED", "COMPLETED", "CONFIGURING", "COMPLETING", "DEADLINE", "FAILED",
                "NODE_FAIL", "OUT_OF_MEMORY", "PENDING", "PREEMPTED", "RUNNING", "RESV_DEL_HOLD",
                "REQUEUE_FED", "REQUEUE_HOLD", "REQUEUED", "RESIZING", "REVOKED", "SIGNALING",
                "SPECIAL_EXIT", "STAGE_OUT", "STOPPED", "SUSPENDED", "TIMEOUT"]
FINISHED_STATES = {"COMPLETED", "COMPLETING"}

SHAPES = ["plain", "pad20", "lead", "tabs", "blank-between", "no-final-nl", "blank-first", "crlf-free-trailing-sp"]


def render_squeue(rows, shape):
    lines = []
    for jid, st in rows:
        if shape == "plain":
            lines.append(f"{jid} {st}")
        elif shape == "pad20":
            lines.append("%-20s%-20s" % (jid, st))
        elif shape == "lead":
            lines.append(f"   {jid}   {st}")
        elif shape == "tabs":
            lines.append(f"{jid}\t{st}")
        elif shape == "crlf-free-trailing-sp":
            lines.append(f"{jid} {st}   ")
        else:
            lines.append("%-20s%-20s" % (jid, st))
    if shape == "blank-between":
        text = "\n\n".join(lines) + "\n"
    elif shape == "no-final-nl":
        text = "\n".join(lines)
    elif shape == "blank-first":
        text = "\n" + "\n".join(lines) + "\n\n"
    else:
        text = "\n".join(lines) + ("\n" if lines else "")
    return text


class _FakeRun:
    """Seam at jade.utils.run_command._run_command: scripted answers, real retry logic above it."""

    def __init__(self):
        import jade.utils.run_command as rc

        self.rc = rc
        self.real = rc._run_command
        self.script = []
        self.calls = []
        rc._run_command = self

    def __call__(self, command, output, cwd, **kwargs):
        self.calls.append(list(command))
        if not self.script:
            raise AssertionError("unscripted command " + repr(command))
        ret, out, err = self.script[0] if self.sticky else self.script.pop(0)
        if output is not None:
            output["stdout"] = out
            output["stderr"] = err
        return ret

    sticky = False

    def restore(self):
        self.rc._run_command = self.real


@register("c18_status")
class C18Status(EnumCheck):
    """squeue outputs over the full state vocabulary x whitespace shapes -> is_complete decisions."""

    def cases(self):
        out = []
        for shape in SHAPES:
            for s1 in SLURM_STATES:
                out.append((shape, [("101", s1)], "101"))
                out.append((shape, [("101", s1)], "999"))
            for s1 in SLURM_STATES:
                for s2 in SLURM_STATES:
                    out.append((shape, [("101", s1), ("102", s2)], "102"))
            out.append((shape, [], "101"))
        return out

    def begin(self):
        self.fr = _FakeRun()
        self.fr.sticky = True

    def end(self):
        self.fr.restore()

    def evaluate(self, case):
        from jade.hpc.hpc_manager import HpcManager
        from jade.hpc.hpc_submitter import AsyncHpcSubmitter, HpcStatusCollector
        from jade.models import HpcConfig, SubmissionGroup, SubmitterParams

        shape, rows, query = case
        text = render_squeue(rows, shape)
        g = SubmissionGroup(name="g", submitter_params=SubmitterParams(
            hpc_config=HpcConfig(hpc_type="slurm", hpc={"account": "a"})))
        mgr = HpcManager({"g": g}, "/nonexistent")
        self.fr.script = [(0, text, "")]
        self.fr.calls = []
        col = HpcStatusCollector(mgr, 10)
        sub = AsyncHpcSubmitter.create_from_id(mgr, col, query)
        res = []
        try:
            done = sub.is_complete()
        except AssertionError as e:
            self.notes.add(f"status parser raised AssertionError on shape {shape}")
            return res
        present = dict(rows).get(query)
        want = (present is None) or (present in FINISHED_STATES)
        if done and not want:
            res.append(V("unfinished-treated-finished",
                         f"batch {query} reported {present!r} in {text!r} is treated as finished"))
        if want and not done:
            res.append(V("finished-not-detected", f"batch {query} ({present!r}) in {text!r} not treated as finished"))
        if len(self.fr.calls) != 1 or self.fr.calls[0][0] != "squeue":
            res.append(V("status-command", f"unexpected commands {self.fr.calls}"))
        return res

    def kind(self, c):
        return c[0]


SBATCH_ANSWERS = [
    ("ok", 0, "Submitted batch job 123\n", "", "123"),
    ("ok-extra", 0, "sbatch: Warning: can't run 1 processes on 2 nodes\nSubmitted batch job 4567 on cluster x\n", "", "4567"),
    ("empty", 0, "", "", None),
    ("other-text", 0, "Queued.\n", "", None),
    ("no-number", 0, "Submitted batch job\n", "", None),
    ("nonzero", 1, "Submitted batch job 123\n", "sbatch: error: Batch job submission failed\n", None),
    ("nonzero-empty", 1, "", "error\n", None),
]


@register("c18_submit")
class C18Submit(EnumCheck):
    """sbatch responses -> Status and queue membership."""

    def cases(self):
        return [a[0] for a in SBATCH_ANSWERS]

    def begin(self):
        self.fr = _FakeRun()
        self.fr.sticky = True
        self.dir = scratch("c18s")
        import time

        self._sleep = time.sleep
        time.sleep = lambda s: None

    def end(self):
        import time

        time.sleep = self._sleep
        self.fr.restore()

    def evaluate(self, tag):
        from jade.enums import Status
        from jade.hpc.hpc_manager import HpcManager
        from jade.hpc.hpc_submitter import AsyncHpcSubmitter, HpcStatusCollector
        from jade.jobs.job_queue import JobQueue
        from jade.models import HpcConfig, SubmissionGroup, SubmitterParams

        _, rc, out, err, want_id = next(a for a in SBATCH_ANSWERS if a[0] == tag)
        g = SubmissionGroup(name="g", submitter_params=SubmitterParams(
            hpc_config=HpcConfig(hpc_type="slurm", hpc={"account": "a"})))
        mgr = HpcManager({"g": g}, self.dir)
        self.fr.script = [(rc, out, err)]
        self.fr.calls = []
        col = HpcStatusCollector(mgr, 10)
        sub = AsyncHpcSubmitter(mgr, col, os.path.join(self.dir, "run_batch_1.sh"), "job_batch_1", g, self.dir)
        q = JobQueue(5)
        q.submit(sub)
        res = []
        ids = [x.job_id for x in q.outstanding_jobs]
        if want_id is None:
            if ids:
                res.append(V("bad-submit-active", f"sbatch answer {tag} ({rc}, {out!r}) left the batch active with id {ids}"))
        else:
            if ids != [want_id]:
                res.append(V("good-submit-lost", f"sbatch answer {tag}: active ids {ids}, expected [{want_id}]"))
        n = sum(1 for c in self.fr.calls if c[0] == "sbatch")
        want_n = 1 if rc == 0 else 7
        if n != want_n:
            res.append(V("sbatch-executions", f"sbatch answer {tag}: {n} executions, expected {want_n}"))
        return res


@register("c18_retry")
class C18Retry(EnumCheck):
    """run_command: every outcome sequence over {ok, transient, permanent}, retries 0-3."""

    def cases(self):
        out = []
        for r in range(0, 4):
            for seq in itertools.product("OTP", repeat=r + 1):
                for mode in ("none", "dict", "dict+errors"):
                    out.append((r, "".join(seq), mode))
        return out

    def begin(self):
        self.fr = _FakeRun()
        import time

        self._sleep = time.sleep
        self.sleeps = []
        time.sleep = lambda s: self.sleeps.append(s)

    def end(self):
        import time

        time.sleep = self._sleep
        self.fr.restore()

    def evaluate(self, case):
        from jade.utils.run_command import run_command

        r, seq, mode = case
        ans = {"O": (0, "fine", ""), "T": (3, "", "Socket timed out"), "P": (5, "", "xx Invalid job id specified yy")}
        self.fr.script = [ans[c] for c in seq] + [(99, "", "unscripted")]
        self.fr.sticky = False
        self.fr.calls = []
        self.sleeps.clear()
        output = None if mode == "none" else {}
        kw = {}
        if mode == "dict+errors":
            kw["error_strings"] = ["Invalid job id specified"]
        ret = run_command("squeue -j 1", output, num_retries=r, retry_delay_s=0, **kw)
        # reference
        n = 0
        last = None
        for c in seq:
            n += 1
            last = c
            if c == "O":
                break
            if c == "P" and mode == "dict+errors" and r > 0:
                break
        res = []
        if len(self.fr.calls) != n:
            res.append(V("executions", f"run_command(num_retries={r}, {mode}) on outcomes {seq}: {len(self.fr.calls)} executions, reference {n}"))
        if len(self.fr.calls) > r + 1:
            res.append(V("too-many-tries", f"{len(self.fr.calls)} executions with num_retries={r}"))
        if ret != ans[last][0]:
            res.append(V("return-code", f"run_command on {seq} returned {ret}, last execution returned {ans[last][0]}"))
        if output is not None and (output.get("stdout"), output.get("stderr")) != (ans[last][1], ans[last][2]):
            res.append(V("output", f"run_command on {seq}: output {output} is not the last execution's"))
        return res

    def kind(self, c):
        return f"retries={c[0]}"

    def nontrivial(self, c):
        return c[0] > 0


# =============================================================================== C20
@register("c20_stats")
class C20Stats(EnumCheck):
    """Every sample sequence of length 1-4 over {0,1,2,5} through the real aggregator."""

    def cases(self):
        out = []
        for n in range(1, 5):
            for seq in itertools.product((0, 1, 2, 5), repeat=n):
                out.append(seq)
        return out

    def begin(self):
        self.dir = scratch("c20s")
        os.makedirs(os.path.join(self.dir, "stats"), exist_ok=True)
        from jade.resource_monitor import ResourceMonitorAggregator

        class Scripted(ResourceMonitorAggregator):
            script = None

            def _get_stats(self_inner):
                if not Scripted.script:
                    return {"CPU": {"cpu_percent": 0.0}, "Memory": {"percent": 0.0}}
                v = Scripted.script.pop(0)
                return {"CPU": {"cpu_percent": float(v)}, "Memory": {"percent": float(v) * 2}}

        self.cls = Scripted

    def evaluate(self, seq):
        from jade.models.submitter_params import ResourceMonitorStats

        self.cls.script = None
        agg = self.cls("batch_1_0", ResourceMonitorStats(cpu=True, memory=True, disk=False, network=False, process=False))
        self.cls.script = list(seq)
        for _ in seq:
            agg.update_resource_stats(ids={})
        agg.finalize(self.dir)
        with open(os.path.join(self.dir, "stats", "batch_1_0_resource_stats.json")) as f:
            data = json.load(f)
        res = []
        by = {d.get("type"): d for d in data}
        for typ, key, mul in (("CPU", "cpu_percent", 1), ("Memory", "percent", 2)):
            d = by.get(typ)
            if d is None:
                res.append(V("stat-missing", f"no summary of type {typ} in {data}"))
                continue
            xs = [float(v) * mul for v in seq]
            want = dict(minimum=min(xs), maximum=max(xs), average=sum(xs) / len(xs))
            for k, wv in want.items():
                gv = d.get(k, {}).get(key)
                if gv is None or abs(gv - wv) > 1e-9:
                    res.append(V(f"stat-{k}", f"samples {xs}: {k} reported {gv}, true {wv}"))
        return res

    def kind(self, c):
        return f"len={len(c)}"

    def nontrivial(self, c):
        return len(c) > 1


CLASSES = ("successful", "failed1", "failed2", "failedsig", "canceled", "missing")  # failedsig: killed by a signal, return code -9


@register("c20_tallies")
class C20Tallies(EnumCheck):
    """Every result set over {successful, failed(1), failed(2), failed(-9: killed by a signal), canceled, missing}^n, n <= 4,
    through the real completion code (results summary) and ResultsSummary."""

    def cases(self):
        out = []
        for n in range(1, 5):
            out.extend(itertools.product(range(len(CLASSES)), repeat=n))
        return out

    def begin(self):
        self.base = scratch("c20t")
        self.k = 0

    def evaluate(self, combo):
        from jade.enums import JobCompletionStatus
        from jade.extensions.generic_command import GenericCommandConfiguration, GenericCommandParameters
        from jade.jobs.cluster import Cluster
        from jade.jobs.job_submitter import JobSubmitter
        from jade.jobs.results_aggregator import ResultsAggregator
        from jade.models import HpcConfig, SubmissionGroup, SubmitterParams
        from jade.result import Result, ResultsSummary

        out = os.path.join(self.base, "o")
        shutil.rmtree(out, ignore_errors=True)
        os.makedirs(out)
        cfg = GenericCommandConfiguration()
        n = len(combo)
        for i in range(n):
            cfg.add_job(GenericCommandParameters(command="x", name=f"j{i}"))
        cfg.append_submission_group(SubmissionGroup(name="default", submitter_params=SubmitterParams(
            hpc_config=HpcConfig(hpc_type="slurm", hpc={"account": "a"}), generate_reports=False)))
        mgr = JobSubmitter.create(cfg, output=out)
        cluster = Cluster.create(out, mgr.config)
        agg = ResultsAggregator.create(out)
        for i, c in enumerate(combo):
            cl = CLASSES[c]
            if cl == "missing":
                continue
            if cl == "successful":
                r = Result(f"j{i}", 0, JobCompletionStatus.FINISHED, 1.0, hpc_job_id="7")
            elif cl == "failed1":
                r = Result(f"j{i}", 1, JobCompletionStatus.FINISHED, 1.0, hpc_job_id="7")
            elif cl == "failed2":
                r = Result(f"j{i}", 2, JobCompletionStatus.FINISHED, 1.0, hpc_job_id="7")
            elif cl == "failedsig":
                r = Result(f"j{i}", -9, JobCompletionStatus.FINISHED, 1.0, hpc_job_id="7")
            else:
                r = Result(f"j{i}", 1, JobCompletionStatus.CANCELED, 0.0, hpc_job_id=None)
            agg.append_result(r)
        mgr._handle_completion(cluster)
        with open(os.path.join(out, "results.json")) as f:
            data = json.load(f)
        res = []
        want = dict(num_successful=sum(1 for c in combo if CLASSES[c] == "successful"),
                    num_failed=sum(1 for c in combo if CLASSES[c].startswith("failed")),
                    num_canceled=sum(1 for c in combo if CLASSES[c] == "canceled"),
                    num_missing=sum(1 for c in combo if CLASSES[c] == "missing"))
        got = data.get("results_summary", {})
        if {k: got.get(k) for k in want} != want:
            res.append(V("tallies", f"results {[CLASSES[c] for c in combo]}: summary {got} != {want}"))
        if sum(got.get(k, 0) for k in want) != n:
            res.append(V("tally-sum", f"tallies {got} do not sum to {n}"))
        miss = sorted(f"j{i}" for i, c in enumerate(combo) if CLASSES[c] == "missing")
        if sorted(data.get("missing_jobs", [])) != miss:
            res.append(V("missing-list", f"missing_jobs {data.get('missing_jobs')} != {miss}"))
        rs = ResultsSummary(out)
        bt = rs.get_results_by_type()
        got2 = {k: sorted(r.name for r in v) for k, v in bt.items()}
        want2 = dict(successful=sorted(f"j{i}" for i, c in enumerate(combo) if CLASSES[c] == "successful"),
                     failed=sorted(f"j{i}" for i, c in enumerate(combo) if CLASSES[c].startswith("failed")),
                     canceled=sorted(f"j{i}" for i, c in enumerate(combo) if CLASSES[c] == "canceled"))
        if got2 != want2:
            res.append(V("by-type", f"ResultsSummary.get_results_by_type {got2} != {want2}"))
        import contextlib
        import io as _io

        for mode_kw in ({}, {"only_failed": True}, {"only_successful": True}):
            buf = _io.StringIO()
            try:
                with contextlib.redirect_stdout(buf):
                    rs.show_results(**mode_kw)
            except AssertionError as e:
                res.append(V("show-results-assert", f"show_results({mode_kw}) assertion failed for {[CLASSES[c] for c in combo]}: {e}"))
                continue
            text = buf.getvalue()
            shown = {}
            for key, lab in (("num_successful", "Num successful"), ("num_failed", "Num failed"), ("num_canceled", "Num canceled"),
                             ("num_missing", "Num missing"), ("total", "Total")):
                m_ = re.search(r"^%s: (\d+)\s*$" % lab, text, re.M)
                shown[key] = int(m_.group(1)) if m_ else None
            want_shown = dict(want, total=n)
            if shown != want_shown:
                res.append(V("show-results-tallies", f"show_results({mode_kw}) prints {shown} for results {[CLASSES[c] for c in combo]}, expected {want_shown} "
                                                     f"(the filter selects the rows of the table, every job is still counted in exactly one tally)"))
        return res

    def kind(self, c):
        return f"n={len(c)}"


EV_NAMES = ("alpha", "beta")
EV_TS = ("2026-01-01 10:00:00", "2026-01-01 10:00:00.500000", "2026-01-01 09:59:59.999999")
EV_DATA = ({"k": 1}, {"k": 2, "text": "a,b \"q\""})


def _set_partitions_into(items, k):
    """All assignments of items to <= k labelled-by-first-occurrence files."""
    n = len(items)
    out = []

    def rec(prefix, used):
        if len(prefix) == n:
            out.append(tuple(prefix))
            return
        for g in range(min(used + 1, k)):
            rec(prefix + [g], max(used, g + 1))

    rec([], 0)
    return out


@register("c20_events")
class C20Events(EnumCheck):
    """All multisets of <= 4 (3 in quick) events over 2 names x 3 timestamps x 2 payloads, spread over
    1-3 per-process files in every way, written by the real event logger, consolidated twice."""

    def cases(self):
        kinds = list(itertools.product(range(2), range(3), range(2)))
        maxn = 3 if self.tier == "quick" else 4
        out = []
        for n in range(1, maxn + 1):
            for ms in itertools.combinations_with_replacement(range(len(kinds)), n):
                for part in _set_partitions_into(ms, 3):
                    out.append((ms, part))
        return out

    def begin(self):
        import logging

        self.base = scratch("c20e")
        logging.disable(logging.NOTSET)

    def end(self):
        import logging

        logging.disable(logging.CRITICAL)

    def evaluate(self, case):
        import logging

        from jade.events import EventsSummary, StructuredLogEvent
        from jade.loggers import setup_event_logging, log_event, close_event_logging

        kinds = list(itertools.product(range(2), range(3), range(2)))
        ms, part = case
        out = os.path.join(self.base, "o")
        shutil.rmtree(out, ignore_errors=True)
        os.makedirs(out)
        written = []
        files = ["submit_jobs_events.log", "run_jobs_batch_1_0_events.log", "run_jobs_batch_2_0_events.log"]
        for fi in sorted(set(part)):
            setup_event_logging(os.path.join(out, files[fi]), mode="a")
            for idx, (k, f) in enumerate(zip(ms, part)):
                if f != fi:
                    continue
                ni, ti, di = kinds[k]
                data = dict(EV_DATA[di])
                data["seq"] = idx
                ev = StructuredLogEvent(source=f"src{fi}", category="HPC", name=EV_NAMES[ni],
                                        message=f"m {idx}", timestamp=EV_TS[ti], **data)
                log_event(ev)
                written.append((EV_NAMES[ni], EV_TS[ti], f"src{fi}", f"m {idx}", json.dumps(data, sort_keys=True)))
            close_event_logging()
            for h in list(logging.getLogger("_jade_event").handlers):
                logging.getLogger("_jade_event").removeHandler(h)
        res = []

        def snapshot():
            s = EventsSummary(out)
            got = {}
            for name in EV_NAMES:
                got[name] = [(e.name, e.timestamp, e.source, e.message, json.dumps(e.data, sort_keys=True))
                             for e in s.list_events(name)]
            return got

        got = snapshot()
        for name in EV_NAMES:
            want = sorted(w for w in written if w[0] == name)
            if sorted(got[name]) != want:
                res.append(V("events-lost-or-duplicated",
                             f"events named {name}: consolidated {sorted(got[name])} != written {want}"))
            ts = [self._t(e[1]) for e in got[name]]
            if ts != sorted(ts):
                res.append(V("events-order", f"events named {name} not ordered by time: {[e[1] for e in got[name]]}"))
        again = snapshot()
        if again != got:
            res.append(V("events-not-idempotent", f"second read differs: {again} vs {got}"))
        # consolidate again from the raw logs
        shutil.rmtree(os.path.join(out, "events"))
        third = snapshot()
        if third != got:
            res.append(V("events-reconsolidate", f"re-consolidation differs: {third} vs {got}"))
        # what resubmit-jobs does: the consolidated files are deleted, the directory stays; the rerun's processes log
        # more events; the next summary holds the old and the new ones
        evd = os.path.join(out, "events")
        for n in os.listdir(evd):
            os.remove(os.path.join(evd, n))
        setup_event_logging(os.path.join(out, "run_jobs_batch_3_0_events.log"), mode="a")
        ev = StructuredLogEvent(source="rerun", category="HPC", name=EV_NAMES[0], message="m rerun",
                                timestamp="2026-01-01 11:00:00.250000", k=9)
        log_event(ev)
        close_event_logging()
        for h in list(logging.getLogger("_jade_event").handlers):
            logging.getLogger("_jade_event").removeHandler(h)
        fourth = snapshot()
        want4 = {name: list(got[name]) for name in EV_NAMES}
        want4[EV_NAMES[0]] = want4[EV_NAMES[0]] + [(EV_NAMES[0], "2026-01-01 11:00:00.250000", "rerun", "m rerun", json.dumps({"k": 9}, sort_keys=True))]
        if {k_: sorted(v_) for k_, v_ in fourth.items()} != {k_: sorted(v_) for k_, v_ in want4.items()}:
            res.append(V("events-after-resubmission", f"summary after the consolidated files were deleted (directory kept) and one more event was logged: {fourth} != {want4}"))
        return res

    @staticmethod
    def _t(s):
        from datetime import datetime

        for fmt in ("%Y-%m-%d %H:%M:%S.%f", "%Y-%m-%d %H:%M:%S"):
            try:
                return datetime.strptime(s, fmt)
            except ValueError:
                pass
        raise ValueError(s)

    def kind(self, c):
        return f"events={len(c[0])},files={len(set(c[1]))}"

    def nontrivial(self, c):
        return len(c[0]) > 1


@register("c20_procstats")
class C20ProcStats(EnumCheck):
    """Per-process statistics: two job processes with different lifetimes (every presence mask over <=4
    monitor ticks) x sample values, through the real aggregator with `_get_process_stats` as the seam."""

    def cases(self):
        out = []
        for n in range(1, 5):
            for mask2 in itertools.product((0, 1), repeat=n):
                if not any(mask2):
                    continue
                for v1 in itertools.product((1, 5), repeat=n):
                    for v2 in itertools.product((2, 0) if n > 2 else (2, 0, 7), repeat=sum(mask2)):
                        out.append((n, mask2, v1, v2))
        return out

    def begin(self):
        self.dir = scratch("c20p")
        os.makedirs(os.path.join(self.dir, "stats"), exist_ok=True)
        from jade.resource_monitor import ResourceMonitorAggregator

        class Scripted(ResourceMonitorAggregator):
            ticks = None

            def _get_stats(self_inner):
                return {"CPU": {"cpu_percent": 1.0}}

            def _get_process_stats(self_inner, pids):
                return Scripted.ticks.pop(0)

        self.cls = Scripted

    def evaluate(self, case):
        from jade.models.submitter_params import ResourceMonitorStats

        n, mask2, v1, v2 = case
        v2 = list(v2)
        ticks = []
        samples = {"job1": [], "job2": []}
        for t in range(n):
            d = {"job1": {"cpu_percent": float(v1[t]), "rss": float(v1[t]) * 10}}
            samples["job1"].append(float(v1[t]))
            if mask2[t]:
                x = float(v2.pop(0))
                d["job2"] = {"cpu_percent": x, "rss": x * 10}
                samples["job2"].append(x)
            ticks.append(d)
        self.cls.ticks = ticks
        agg = self.cls("batch_1_0", ResourceMonitorStats(cpu=True, memory=False, disk=False, network=False, process=True))
        for _ in range(n):
            agg.update_resource_stats(ids={"job1": 1, "job2": 2})
        agg.finalize(self.dir)
        with open(os.path.join(self.dir, "stats", "batch_1_0_resource_stats.json")) as f:
            data = json.load(f)
        res = []
        by = {d.get("name"): d for d in data if d.get("type") == "Process"}
        for name, xs in samples.items():
            d = by.get(name)
            if d is None:
                res.append(V("procstat-missing", f"no per-process summary for {name} in {data}"))
                continue
            if d.get("samples") != len(xs):
                res.append(V("procstat-samples", f"{name}: samples reported {d.get('samples')}, taken {len(xs)}"))
            for key, mul in (("cpu_percent", 1), ("rss", 10)):
                ys = [x * mul for x in xs]
                want = dict(minimum=min(ys), maximum=max(ys), average=sum(ys) / len(ys))
                for k, wv in want.items():
                    gv = d.get(k, {}).get(key)
                    if gv is None or abs(gv - wv) > 1e-9:
                        res.append(V(f"procstat-{k}", f"{name} {key} samples {ys} (present in {len(xs)} of {n} ticks): {k} reported {gv}, true {wv}"))
        return res

    def kind(self, c):
        return f"ticks={c[0]}"

    def nontrivial(self, c):
        return c[0] > 1
