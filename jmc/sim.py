"""Simulated SLURM, job processes and the subprocess dispatcher (trusted base of mode S)."""

import os
import re
import shlex
import subprocess
import traceback

from .engine import tls, Op, Abort, HarnessError, raw, in_raw, READY, DEAD

_real_popen = subprocess.Popen
PIPE = subprocess.PIPE


def _code_of(exc):
    c = exc.code
    if c is None:
        return 0
    if isinstance(c, int):
        return c
    return 1


class Batch:
    __slots__ = ("id", "name", "script", "run_script", "config", "jobs", "state", "vp", "group")

    def __init__(self, id_, name, script, run_script, config, jobs):
        self.id = id_
        self.name = name
        self.script = script
        self.run_script = run_script
        self.config = config
        self.jobs = jobs
        self.state = "PENDING"  # PENDING RUNNING CANCELLED GONE
        self.vp = None


class FakeJob:
    """A job process started by AsyncCliCommand.run (or a real-looking Popen object)."""

    def __init__(self, world, vp, name, argv, env):
        self.world = world
        self.vp = vp
        self.name = name
        self.args = argv
        self.env = env
        self.pid = world.next_pid
        world.next_pid += 1
        self.returncode = None
        self.alive = True
        # scenario option job_events: the job's own process logs structured events into job-outputs/<job>/events.log
        # (what a JADE extension does); the handle stays open for the life of the process, so a file unlinked by somebody
        # else swallows the later events exactly as on a real file system
        self._evf = None
        if world.scen.get("job_events"):
            with raw():
                d = os.path.join(env.get("JADE_RUNTIME_OUTPUT") or world.root, "job-outputs", name)
                os.makedirs(d, exist_ok=True)
                self._evf = open(os.path.join(d, "events.log"), "a")
            self._event("start")

    def _event(self, phase):
        if self._evf is None:
            return
        import json as _json

        rec = dict(source=self.name, category="job", name="job_evt", message=phase, event_class="StructuredLogEvent",
                   timestamp="2026-01-01 10:00:0%d.000000" % (0 if phase == "start" else 1), data={"pid": self.pid, "phase": phase})
        with raw():
            self._evf.write(_json.dumps(rec, sort_keys=True) + "\n")
            self._evf.flush()
        self.world.data.setdefault("job_events_written", []).append((self.name, phase))

    def poll(self):
        return self.returncode

    def wait(self, timeout=None):
        if self.returncode is None:
            raise HarnessError("wait() on a running fake job")
        return self.returncode

    def finish(self):
        w = self.world
        code = w.sim.exit_code_for(self.name)
        self._event("end")
        if self._evf is not None:
            with raw():
                self._evf.close()
        self.returncode = code
        self.alive = False
        self.vp.jobs.pop(self.name, None)
        w.sim.live_jobs.pop((self.vp.index, self.name), None)
        w.log(f"  job {self.name} exits {code}")
        w.emit("job_exit", vp=self.vp, job=self.name, code=code)

    def kill(self):
        self.alive = False

    terminate = kill

    def communicate(self, *a, **k):
        return (None, None)

    def __enter__(self):
        return self

    def __exit__(self, *a):
        return False


class DoneProc:
    """Result object of a command that the dispatcher answered synchronously."""

    def __init__(self, args, rc, out=b"", err=b"", want_out=False, want_err=False):
        self.args = args
        self.returncode = rc
        self._out = out if want_out else None
        self._err = err if want_err else None
        self.pid = 4242
        self.stdout = None
        self.stderr = None

    def communicate(self, input=None, timeout=None):
        return (self._out, self._err)

    def wait(self, timeout=None):
        return self.returncode

    def poll(self):
        return self.returncode

    def kill(self):
        pass

    terminate = kill

    def __enter__(self):
        return self

    def __exit__(self, *a):
        return False


class SimSlurm:
    def __init__(self, world):
        self.world = world
        world.sim = self
        self.batches = {}
        self.next_id = 101
        self.live_jobs = {}  # (vp.index, job name) -> FakeJob
        self.launch_count = {}
        self.marker_owner = {}
        self.attempt = {}  # job name -> number of finished runs (for per-attempt exit codes)
        self.sbatch_count = 0
        self.cmd_log = []
        self.refused = {}
        self.sticky_refused = set()  # scripts the scheduler refuses on every attempt (fault 'fail-all')
        self.squeue_down = set()  # vproc indices for which squeue fails on every attempt of this round
        self.odd_used = 0  # squeue answers that showed an active batch in an unusual state (scenario option odd_states)

    # ----------------------------------------------------------------- state for caching
    def state_repr(self):
        parts = []
        for b in self.batches.values():
            parts.append(f"{b.id}:{b.state}")
        parts.append("|")
        for (vi, n), j in sorted(self.live_jobs.items()):
            parts.append(f"{vi}.{n}")
        parts.append("|")
        parts.append(",".join(f"{k}={v}" for k, v in sorted(self.attempt.items())))
        parts.append(f"|{self.sbatch_count}|{sorted(self.sticky_refused)}|{sorted(self.squeue_down)}|{self.odd_used}")
        return " ".join(parts)

    # ----------------------------------------------------------------- scenario answers
    def exit_code_for(self, name):
        scen = self.world.scen
        n = self.attempt.get(name, 0)
        self.attempt[name] = n + 1
        if scen.get("exit_by_epoch"):
            n = int(self.world.data.get("epoch", 0))  # the code depends on the (re)submission, not on the attempt
        codes = scen.get("exit_codes", {}).get(name, 0)
        if isinstance(codes, (list, tuple)):
            return codes[min(n, len(codes) - 1)]
        return codes

    def finish_alternatives(self, names):
        """Labels for 'these running jobs finish now' (non-empty subsets; all first)."""
        n = len(names)
        alts = ["fin:" + "+".join(names)]
        if n == 1:
            return alts
        if self.world.scen.get("finish_orders", "all") == "default":
            return alts
        for x in names:
            alts.append("fin:" + x)
        if n == 3:
            for i in range(3):
                alts.append("fin:" + "+".join(names[:i] + names[i + 1:]))
        elif n > 3:
            self.world.notes.add("finish-subsets-capped(>3 concurrent jobs)")
        return alts

    def marker_is_stale(self, path, st, waiter):
        """break_stale: empty marker (no owner record) or owner dead on the waiter's host."""
        owner = self.marker_owner.get(path)
        if owner is None:
            return True
        if owner.status == DEAD and owner.host == waiter.host:
            return True
        return False

    # ----------------------------------------------------------------- lifecycle of nodes
    def active_batches(self):
        return [b for b in self.batches.values() if b.state in ("PENDING", "RUNNING")]

    def visible_batches(self):
        return [b for b in self.batches.values() if b.state in ("PENDING", "RUNNING", "CANCELLED")]

    def node_exit(self, vp):
        b = self.batches.get(vp.batch_id)
        if b is not None and b.state in ("PENDING", "RUNNING"):
            b.state = "GONE"
        self.world.emit("batch_end", vp=vp, batch=b)

    def vproc_killed(self, vp):
        for n, j in list(vp.jobs.items()):
            j.alive = False
            self.live_jobs.pop((vp.index, n), None)
        if vp.kind == "node":
            b = self.batches.get(vp.batch_id)
            if b is not None and b.state in ("PENDING", "RUNNING"):
                b.state = "GONE"
            self.world.emit("batch_end", vp=vp, batch=b)

    # ----------------------------------------------------------------- commands
    def sbatch(self, vp, argv, alt):
        w = self.world
        script = argv[-1]
        with raw():
            info = self._parse_submission(script)
        self.sbatch_count += 1
        rel_script = w.rel(script) or script
        if alt == "fail-all":
            self.sticky_refused.add(rel_script)
        if alt in ("fail", "fail-all") or rel_script in self.sticky_refused or (
                (os.path.basename(script) in w.scen.get("refuse_scripts", ()) or rel_script in w.scen.get("refuse_scripts", ())) and not w.data.get("epoch")):
            # a clean refusal (the scheduler did not accept the job); scripted by the scenario or a fault
            if not self.refused.get(script):
                self.refused[script] = True
                w.emit("sbatch", vp=vp, accepted=False, **info)
            return 1, b"", b"sbatch: error: Batch job submission failed: Invalid account\n"
        if alt == "garbled":
            w.emit("sbatch", vp=vp, accepted=False, **info)
            return 0, b"sbatch: queued\n", b""
        id_ = str(self.next_id)
        self.next_id += 1
        b = Batch(id_, info["name"], script, info["run_script"], info["config"], info["jobs"])
        self.batches[id_] = b
        w.log(f"  sbatch -> {id_} {info['name']} jobs={info['jobs']}")
        # the node exists from now on; its first transition is "the scheduler starts it"
        env = dict(w.scen["base_env"])
        env.update(
            SLURM_JOB_ID=id_,
            SLURM_NODEID="0",
            SLURM_CPUS_ON_NODE=str(w.scen.get("cpus", 2)),
            LOCAL_SCRATCH=w.scen["scratch"],
        )
        target = self._node_target(info["run_argv"])
        with raw():
            nvp = w.spawn(f"n{id_}", f"n{id_}", env, target, kind="node")
        nvp.batch_id = id_
        b.vp = nvp
        w.emit("sbatch", vp=vp, accepted=True, id=id_, node=nvp, **info)
        return 0, f"Submitted batch job {id_}\n".encode(), b""

    def _node_target(self, run_argv):
        def target():
            w = tls.vproc.world
            b = self.batches[tls.vproc.batch_id]
            if b.state == "PENDING":
                b.state = "RUNNING"
            return run_cli(run_argv)

        return target

    def _parse_submission(self, script):
        info = {"script": script, "name": None, "run_script": None, "config": None, "jobs": [],
                "sbatch_lines": [], "run_argv": None, "script_text": None, "run_text": None}
        try:
            with open(script) as f:
                text = f.read()
        except OSError as e:
            info["error"] = f"cannot read {script}: {e}"
            return info
        info["script_text"] = text
        for line in text.split("\n"):
            if line.startswith("#SBATCH"):
                info["sbatch_lines"].append(line)
                m = re.match(r"#SBATCH --job-name=(.*)$", line)
                if m:
                    info["name"] = m.group(1)
            elif line.startswith("srun "):
                info["run_script"] = line[5:].strip()
        rs = info["run_script"]
        if rs is None:
            info["error"] = "no srun line"
            return info
        try:
            with open(rs) as f:
                rtext = f.read()
        except OSError as e:
            info["error"] = f"cannot read {rs}: {e}"
            return info
        info["run_text"] = rtext
        for line in rtext.split("\n"):
            if line.startswith("jade-internal run-jobs"):
                info["run_argv"] = shlex.split(line)
        if info["run_argv"] is None:
            info["error"] = "no run-jobs line"
            return info
        cfg = info["run_argv"][2]
        info["config"] = cfg
        try:
            import json

            with open(cfg) as f:
                data = json.load(f)
            info["jobs"] = [str(j.get("name") or j.get("job_id")) for j in data["jobs"]]
            info["job_blocked_by"] = {
                str(j.get("name") or j.get("job_id")): sorted(j.get("blocked_by") or [])
                for j in data["jobs"]
            }
            info["config_data"] = data
        except Exception as e:  # noqa
            info["error"] = f"cannot read {cfg}: {e}"
        return info

    def squeue(self, vp, argv, alt):
        if alt == "fail-all":
            self.squeue_down.add(vp.index)
        if alt in ("fail", "fail-all") or vp.index in self.squeue_down:
            return 1, b"", b"slurm_load_jobs error: Socket timed out on send/recv operation\n"
        fmt = None
        jid = None
        name = None
        it = iter(argv[1:])
        for a in it:
            if a == "--Format":
                fmt = next(it)
            elif a == "-j":
                jid = next(it)
            elif a == "-n":
                name = next(it)
            elif a == "-u":
                next(it)
        fields = (fmt or "jobid,state").split(",")
        if alt != "show-cancelled":
            for b in self.batches.values():
                if b.state == "CANCELLED":
                    b.state = "GONE"
        rows = []
        vis = self.visible_batches()
        if jid is not None:
            if jid not in self.batches or self.batches[jid].state == "GONE":
                return 1, b"", b"slurm_load_jobs error: Invalid job id specified\n"
            vis = [self.batches[jid]]
        if name is not None:
            vis = [b for b in vis if b.name == name]
        odd = alt[4:] if alt.startswith("odd:") else None
        if odd is not None:
            self.odd_used += 1
        for b in vis:
            vals = {"jobid": b.id, "name": b.name or "", "state": "SUSPENDED" if b.id == odd else b.state}
            rows.append("".join("%-20s" % vals.get(f, "") for f in fields))
        if jid is None and name is None:
            # other jobs of the same user that have nothing to do with this submission
            for fid in self.world.scen.get("foreign_jobs", ()):
                vals = {"jobid": str(fid), "name": "other", "state": "RUNNING"}
                rows.append("".join("%-20s" % vals.get(f, "") for f in fields))
        out = "\n".join(rows) + ("\n" if rows else "")
        return 0, out.encode(), b""

    def scancel(self, vp, argv, alt):
        w = self.world
        jid = argv[-1]
        b = self.batches.get(jid)
        w.emit("scancel", vp=vp, id=jid)
        if alt in ("fail", "fail-all"):
            # injected fault: the controller did not take the request; the batch keeps running
            return 1, b"", b"scancel: error: Kill job error on job id %s: Socket timed out on send/recv operation\n" % jid.encode()
        if b is None or b.state == "GONE":
            return 1, b"", b"scancel: error: Kill job error on job id %s: Invalid job id specified\n" % jid.encode()
        if b.state in ("PENDING", "RUNNING"):
            b.state = "CANCELLED"
            if b.vp is not None and b.vp.status == READY:
                w.kill(b.vp, "scancel")
                b.state = "CANCELLED"
        return 0, b"", b""


def run_cli(argv):
    """Run a `jade ...` / `jade-internal ...` command line inline through the real click groups."""
    from jade.cli.jade import cli as jade_cli
    from jade.cli.jade_internal import cli as internal_cli

    grp = internal_cli if argv[0] == "jade-internal" else jade_cli
    rv = grp.main(args=list(argv[1:]), prog_name=argv[0], standalone_mode=False)
    return rv if isinstance(rv, int) else 0


SKIPPED_JADE = (("stats",), ("db",))


class VProcess:
    """What subprocess.Popen becomes inside a vproc thread."""

    def __new__(cls, args, bufsize=-1, executable=None, stdin=None, stdout=None, stderr=None,
                preexec_fn=None, close_fds=True, shell=False, cwd=None, env=None, **kw):
        vp = tls.vproc
        w = vp.world
        if w.closed or vp.killed:
            raise Abort()
        if isinstance(args, str):
            argv = shlex.split(args) if not shell else ["sh", "-c", args]
        else:
            argv = [os.fspath(a) for a in args]
        prog = os.path.basename(argv[0])
        want_out = stdout == PIPE
        want_err = stderr == PIPE
        sim = w.sim
        if prog in ("sbatch", "squeue", "scancel"):
            alts = [""]
            if (prog == "squeue" and any(b.state == "CANCELLED" for b in sim.batches.values())
                    and any(v is not vp and v.kind == "user" and v.status == "ready" and v.pending is not None
                            and v.pending.kind == "start" for v in w.vprocs)):
                # (offered only while a later user command will query again, so that the lingering
                # state cannot be the last thing JADE ever sees)
                # a cancelled batch lingers in squeue for a while: zero-cost choice per query
                alts = ["", "show-cancelled"]
            if prog == "squeue" and sim.odd_used < w.scen.get("odd_states", 0):
                # an active batch (suspended by gang scheduling, requeued, ...) shown in a state JADE has no
                # name for: zero-cost environment answer, at most scen['odd_states'] times per execution
                mine = vp.env.get("SLURM_JOB_ID") if hasattr(vp, "env") else None
                act = [b for b in sim.batches.values() if b.state in ("PENDING", "RUNNING") and b.id != mine]
                for st in ("PENDING", "RUNNING"):
                    for b in act:
                        if b.state == st:
                            alts.append("odd:" + b.id)
                            break
            detail = prog + " " + " ".join(
                (w.rel(a) if w.rel(a) is not None else a) for a in argv[1:] if a not in ("-h",)
            )
            alt = vp.sync(Op("cmd", detail, alts=alts, data={"prog": prog}))
            sim.cmd_log.append((vp.name, prog, alt))
            rc, out, err = getattr(sim, prog)(vp, argv, alt)
            vp.observe(f"cmd {detail} -> {rc} {out!r}")
            w.emit("cmd", vp=vp, prog=prog, argv=argv, rc=rc, out=out, alt=alt)
            return DoneProc(argv, rc, out, err, want_out, want_err)
        if prog in ("jade", "jade-internal"):
            return cls._inline(vp, w, argv, env, want_out, want_err)
        if prog == "git":
            out = b""
            if argv[1:3] == ["log", "-n"]:
                out = b"commit 0123456789abcdef0123456789abcdef01234567\nAuthor: x\n"
            elif argv[1] == "rev-parse":
                out = b"main\n"
            return DoneProc(argv, 0, out, b"", want_out, want_err)
        if env is not None and "JADE_JOB_NAME" in env and not want_out:
            name = env["JADE_JOB_NAME"]
            vp.sync(Op("launch", name))
            if name in w.scen.get("spawn_fail", ()):
                # the command cannot be spawned (missing executable): what the real Popen raises
                w.emit("spawn_failed", vp=vp, job=name)
                raise FileNotFoundError(2, "No such file or directory", argv[0])
            job = FakeJob(w, vp, name, argv, dict(env))
            vp.jobs[name] = job
            sim.live_jobs[(vp.index, name)] = job
            sim.launch_count[name] = sim.launch_count.get(name, 0) + 1
            w.log(f"  launch {name} on {vp.name}: {argv}")
            w.emit("launch", vp=vp, job=name, argv=argv, env=dict(env), stdout=stdout, stderr=stderr)
            return job
        # a user lifecycle command (setup/teardown/node hooks, auto-config): recorded, answered
        cmdline = " ".join(argv)
        rc = w.scen.get("hook_exit", {}).get(argv[0], 0)
        if len(argv) > 1:
            rc = w.scen.get("hook_exit_by_kind", {}).get(argv[1], rc)
        h = w.scen.get("hook_handler")
        if h is not None:
            r = h(w, vp, argv, dict(env) if env is not None else dict(vp.env), cwd)
            if r is not None:
                rc = r
        w.log(f"  hook {cmdline} on {vp.name} -> {rc}")
        w.emit("hook", vp=vp, argv=argv, env=dict(env) if env is not None else dict(vp.env), rc=rc)
        return DoneProc(argv, rc, b"", b"", want_out, want_err)

    @classmethod
    def _inline(cls, vp, w, argv, env, want_out, want_err):
        sub = tuple(argv[1:2])
        if sub in SKIPPED_JADE:
            return DoneProc(argv, 0, b"", b"", want_out, want_err)
        w.emit("nested_start", vp=vp, argv=argv)
        vp.env_stack.append(dict(env) if env is not None else dict(vp.env))
        vp.nested += 1
        code = 0
        try:
            try:
                code = run_cli(argv)
            except SystemExit as e:
                code = _code_of(e)
            except Abort:
                raise
            except BaseException as e:  # uncaught exception = the nested process dies with 1
                import click

                if isinstance(e, click.ClickException):
                    code = e.exit_code
                else:
                    code = 1
                w.log(f"  nested {' '.join(argv[:2])} crashed: {type(e).__name__}: {e}")
                w.emit("nested_crash", vp=vp, argv=argv, exc=e, tb=traceback.format_exc())
        finally:
            vp.nested -= 1
            vp.env_stack.pop()
        w.emit("nested_end", vp=vp, argv=argv, code=code)
        return DoneProc(argv, code, b"", b"", want_out, want_err)


class PopenDispatch:
    """Replacement for subprocess.Popen: real outside vproc threads."""

    def __new__(cls, *a, **k):
        if getattr(tls, "vproc", None) is None or in_raw():
            return _real_popen(*a, **k)
        return VProcess(*a, **k)
