#!/venv/bin/python
import os, sys
def hx(tag, s):
    sys.stdout.write(tag + ("-" if s is None else os.fsencode(s).hex()) + "\n")
for a in sys.argv: hx("A:", a)
hx("E:JADE_RUNTIME_OUTPUT=", os.environ.get("JADE_RUNTIME_OUTPUT"))
hx("E:JADE_JOB_NAME=", os.environ.get("JADE_JOB_NAME"))
hx("C:", os.getcwd())
sys.stderr.write("ERR:%s\n" % os.environ.get("JADE_JOB_NAME", "-"))
sys.exit(int(os.path.basename(sys.argv[0])[1:]))
