/* C19 probe: prints argv / selected env / cwd (hex) to stdout, a marker to stderr, and exits with
 * the code encoded in its own file name (p<code>). */
#include <stdio.h>
#include <stdlib.h>
#include <string.h>
#include <unistd.h>
static void hex(const char *tag, const char *s) {
  printf("%s", tag);
  if (s) { for (const unsigned char *p = (const unsigned char *)s; *p; p++) printf("%02x", *p); }
  else printf("-");
  printf("\n");
}
int main(int argc, char **argv) {
  char cwd[4096];
  for (int i = 0; i < argc; i++) hex("A:", argv[i]);
  hex("E:JADE_RUNTIME_OUTPUT=", getenv("JADE_RUNTIME_OUTPUT"));
  hex("E:JADE_JOB_NAME=", getenv("JADE_JOB_NAME"));
  hex("C:", getcwd(cwd, sizeof cwd));
  const char *n = getenv("JADE_JOB_NAME");
  fprintf(stderr, "ERR:%s\n", n ? n : "-");
  const char *b = strrchr(argv[0], '/');
  b = b ? b + 1 : argv[0];
  return atoi(b + 1);
}
