"""Scenario vocabulary (DESIGN section 2): plain data -> JADE configuration -> a World."""

import itertools
import json
import os
import shutil

from . import boot
from .engine import World, raw, HarnessError
from .sim import SimSlurm, run_cli

BASE = None


def base_dir():
    global BASE
    if BASE is None or BASE_PID != os.getpid():
        _init_base()
    return BASE


BASE_PID = None


def _init_base():
    """Scratch: $JMC_BASE/<pid> where JMC_BASE=/dev/shm/jmc-<main pid> is owned (and removed) by the
    check's main process; stale trees of dead runs are swept at start."""
    global BASE, BASE_PID
    top = os.environ.get("JMC_BASE")
    if top is None:
        top = new_run_base()
    BASE = os.path.join(top, str(os.getpid()))
    BASE_PID = os.getpid()


def new_run_base():
    parent = "/dev/shm" if os.path.isdir("/dev/shm") else os.environ.get("TMPDIR", "/var/tmp")
    for n in os.listdir(parent):
        if n.startswith("jmc-"):
            try:
                pid = int(n[4:])
            except ValueError:
                continue
            if not os.path.exists(f"/proc/{pid}"):
                shutil.rmtree(os.path.join(parent, n), ignore_errors=True)
    top = os.path.join(parent, "jmc-%d" % os.getpid())
    os.makedirs(top, exist_ok=True)
    os.environ["JMC_BASE"] = top
    import atexit

    atexit.register(cleanup_run_base)
    return top


def cleanup_run_base():
    top = os.environ.get("JMC_BASE")
    if top and top.endswith("jmc-%d" % os.getpid()):
        shutil.rmtree(top, ignore_errors=True)


# ------------------------------------------------------------------------------ scenario helpers
def job(name, blocked_by=(), cancel=False, est=None, group="default", **kw):
    d = {"name": name, "blocked_by": list(blocked_by), "cancel": cancel, "est": est, "group": group}
    d.update(kw)
    return d


def group(name="default", size=500, time_based=False, walltime="0:02:00", nproc=None,
          try_add=True, max_nodes=None, dry_run=False, distributed=True, reports=False, slurm=None,
          **kw):
    d = dict(name=name, size=size, time_based=time_based, walltime=walltime, nproc=nproc,
             try_add=try_add, max_nodes=max_nodes, dry_run=dry_run, distributed=distributed,
             reports=reports, slurm=slurm or {})
    d.update(kw)
    return d


def scenario(jobs, groups=None, exit_codes=None, mode="hpc", cpus=2, hooks=None, actors=(),
             level=0, lockmode="never_break", finish_orders="all", **kw):
    s = dict(jobs=jobs, groups=groups or [group()], exit_codes=exit_codes or {}, mode=mode,
             cpus=cpus, hooks=hooks or {}, actors=list(actors), level=level, lockmode=lockmode,
             finish_orders=finish_orders)
    s.update(kw)
    return s


_cfg_cache = {}


def build_config(scen):
    """JADE configuration for the scenario, built through the public models."""
    from jade.extensions.generic_command import GenericCommandConfiguration, GenericCommandParameters
    from jade.models import HpcConfig, SubmissionGroup, SubmitterParams

    hooks = scen.get("hooks", {})
    config = GenericCommandConfiguration(
        setup_command=hooks.get("setup"),
        teardown_command=hooks.get("teardown"),
        node_setup_command=hooks.get("node_setup"),
        node_teardown_command=hooks.get("node_teardown"),
    )
    for j in scen["jobs"]:
        kw = dict(
            command=j.get("command") or f"runjob {j['name']}",
            name=j["name"],
            blocked_by=set(j["blocked_by"]),
            cancel_on_blocking_job_failure=bool(j["cancel"]),
            submission_group=j["group"],
        )
        if j.get("est") is not None:
            kw["estimated_run_minutes"] = j["est"]
        for k in ("append_job_name", "append_output_dir", "ext"):
            if k in j:
                kw[k] = j[k]
        config.add_job(GenericCommandParameters(**kw))
    local = scen.get("mode") == "local"
    for g in scen["groups"]:
        if local:
            hpc = HpcConfig(hpc_type="local", hpc={})
        else:
            hp = {"account": "acct", "walltime": g["walltime"]}
            hp.update(g.get("slurm") or {})
            hpc = HpcConfig(hpc_type="slurm", job_prefix=g.get("job_prefix", "job"), hpc=hp)
        params = SubmitterParams(
            hpc_config=hpc,
            per_node_batch_size=0 if g["time_based"] and g.get("size0", False) else g["size"],
            time_based_batching=g["time_based"],
            num_processes=g["nproc"],
            try_add_blocked_jobs=g["try_add"],
            max_nodes=g["max_nodes"],
            dry_run=g["dry_run"],
            distributed_submitter=g["distributed"],
            generate_reports=g["reports"],
            resource_monitor_type="none",
            resource_monitor_interval=None,
            poll_interval=g.get("poll_interval", 10),
            verbose=g.get("verbose", False),
        )
        config.append_submission_group(SubmissionGroup(name=g["name"], submitter_params=params))
    return config


def config_text(scen):
    key = json.dumps([scen["jobs"], scen["groups"], scen.get("hooks"), scen.get("mode")],
                     sort_keys=True, default=str)
    t = _cfg_cache.get(key)
    if t is None:
        import io

        cfg = build_config(scen)
        buf = io.StringIO()
        cfg.dump(filename=None, stream=buf)
        t = buf.getvalue()
        if len(_cfg_cache) > 5000:
            _cfg_cache.clear()
        _cfg_cache[key] = t
    return t


def base_env():
    return {
        "HOME": "/root",
        "PATH": "/usr/bin:/bin",
        "USER": "root",
        "JADE_REGISTRY": boot.REGISTRY,
    }


def make_world(scen, oracles=(), fault_plan=None):
    """Fresh world for one execution of `scen` (fresh shared directory, fresh oracles)."""
    base = base_dir()
    boot.reset_module_state()
    shutil.rmtree(base, ignore_errors=True)
    os.makedirs(base + "/in")
    os.makedirs(base + "/scratch")
    root = base + "/out"
    scen.setdefault("base_env", base_env())
    scen["scratch"] = base + "/scratch"
    cfg = base + "/in/config.json"
    with open(cfg, "w") as f:
        f.write(scen["config_text"] if scen.get("config_text") is not None else config_text(scen))
    w = World(root, scen, level=scen.get("level", 0), lockmode=scen.get("lockmode", "never_break"),
              oracles=[o() if isinstance(o, type) else o for o in oracles], fault_plan=fault_plan)
    w.cfg_path = cfg
    for name, text in (scen.get("aux_files") or {}).items():
        with open(base + "/in/" + name, "w") as f:
            f.write(text)
    SimSlurm(w)
    w.emit("init")
    login = scen.get("login", "submit")
    if login == "submit":
        argv = ["jade", "submit-jobs", cfg, "-o", root]
        w.spawn("login", "login1", dict(scen["base_env"]), lambda: run_cli(argv), kind="login")
    elif login == "pipeline":
        pipeline_login(w)
    elif callable(login):
        login(w)
    for a in scen.get("actors", ()):
        spawn_actor(w, a)
    return w


GUARDS = {}


def guard(name):
    def deco(f):
        GUARDS[name] = f
        return f

    return deco


def _cluster_state(w):
    """(exists, is_complete, submitter, is_canceled) read raw from the shared directory."""
    p = w.rootp + "cluster_config.json"
    try:
        with open(p) as f:
            d = json.load(f)
    except (OSError, ValueError):
        return None
    return d


@guard("idle_incomplete")
def _g_idle_incomplete(w):
    """Recovery actor: enabled only when nothing is queued/running and the submission is incomplete."""
    if w.sim.active_batches():
        return False
    if any(v.status == "ready" and v.pending is not None and v.pending.kind != "start" for v in w.vprocs):
        # a JADE process of the submission (or another user command) is still running
        return False
    login = w.vprocs[0]
    if login.status == "ready":
        return False
    d = _cluster_state(w)
    return d is not None and not d.get("is_complete")


@guard("submitted")
def _g_submitted(w):
    """User command that needs an existing submission (cluster files present)."""
    return os.path.exists(w.rootp + "cluster_config.json") and os.path.exists(
        w.rootp + "job_status.json"
    )


@guard("has_result")
def _g_has_result(w):
    """User command started once at least one job result has been recorded (the phase in which nodes collect results,
    hand over and complete)."""
    import glob as _glob

    if _glob.glob(w.rootp + "results/results_batch_*.csv"):
        return True
    try:
        with open(w.rootp + "processed_results.csv") as f:
            return len([l for l in f.read().splitlines() if l.strip()]) > 1
    except OSError:
        return False


@guard("submitted_incomplete")
def _g_submitted_incomplete(w):
    d = _cluster_state(w)
    return d is not None and not d.get("is_complete") and os.path.exists(w.rootp + "job_status.json")


@guard("complete")
def _g_complete(w):
    d = _cluster_state(w)
    if d is None or not d.get("is_complete") or d.get("submitter") is not None:
        return False
    return not any(v.status == "ready" and v.pending is not None and v.pending.kind != "start" for v in w.vprocs)


@guard("complete_any")
def _g_complete_any(w):
    """The completion flag is on disk (the completing process may still be running)."""
    d = _cluster_state(w)
    return d is not None and bool(d.get("is_complete"))


@guard("complete_demoted")
def _g_complete_demoted(w):
    """Complete and the role given up; the completing node may still be running (its batch is still RUNNING)."""
    d = _cluster_state(w)
    return d is not None and bool(d.get("is_complete")) and d.get("submitter") is None


@guard("always")
def _g_always(w):
    return True


def spawn_actor(w, a):
    """a: dict(name, argv=[...] with {out} placeholders, host, guard, after=name-of-actor)."""
    argv0 = [x.replace("{out}", w.root).replace("{in}", os.path.dirname(w.root) + "/in") for x in a["argv"]]
    argv = argv0
    g = GUARDS[a.get("guard", "submitted")]
    after = a.get("after")
    if after is not None:
        g0 = g

        def g(world, g0=g0, after=after):
            for v in world.vprocs:
                if v.name == after:
                    if v.status == "ready":
                        return False
                    break
            else:
                return False
            return g0(world)

    env = dict(w.scen["base_env"])
    env.update(a.get("env", {}))
    repeat = a.get("repeat", 1)

    def target():
        from .engine import tls, Op, Abort

        vp = tls.vproc
        code = 0
        for i in range(repeat):
            if i > 0:
                # re-armed actor: waits (free start) until its guard holds again
                vp.sync(Op("start", "again", guard=g))
            vp.data["rounds"] = i + 1
            argv = argv0
            if "{stage}" in argv0:
                with __import__("jmc.engine", fromlist=["raw"]).raw():
                    sd = current_stage_dir(vp.world)[1]
                argv = [x.replace("{stage}", sd or vp.world.root) for x in argv0]
            vp.world.emit("actor_round", vp=vp, n=i + 1)
            try:
                code = run_cli(argv)
            except SystemExit as e:
                code = e.code if isinstance(e.code, int) else (0 if e.code is None else 1)
            vp.world.emit("actor_round_end", vp=vp, n=i + 1, code=code)
        return code

    return w.spawn(a["name"], a.get("host", "login1"), env, target, kind="user",
                   free_start=a.get("free_start", True), guard=g)


# ------------------------------------------------------------------------------ graph families
def dags(n):
    """All acyclic labelled digraphs on n ordered vertices, as blocked_by lists (by index)."""
    pairs = [(i, j) for i in range(n) for j in range(n) if i != j]
    out = []
    for mask in range(1 << len(pairs)):
        bb = [[] for _ in range(n)]
        for k, (i, j) in enumerate(pairs):
            if mask >> k & 1:
                bb[i].append(j)  # i is blocked by j
        if _acyclic(bb):
            out.append(bb)
    return out


def digraphs(n):
    pairs = [(i, j) for i in range(n) for j in range(n) if i != j]
    for mask in range(1 << len(pairs)):
        bb = [[] for _ in range(n)]
        for k, (i, j) in enumerate(pairs):
            if mask >> k & 1:
                bb[i].append(j)
        yield bb


def _acyclic(bb):
    n = len(bb)
    state = [0] * n

    def visit(u):
        if state[u] == 1:
            return False
        if state[u] == 2:
            return True
        state[u] = 1
        for v in bb[u]:
            if not visit(v):
                return False
        state[u] = 2
        return True

    return all(visit(u) for u in range(n))


NAMES = "abcdefghijklmnop"


def jobs_from_graph(bb, cancel=None, est=None, groups=None):
    n = len(bb)
    out = []
    for i in range(n):
        out.append(job(NAMES[i], [NAMES[j] for j in bb[i]],
                       cancel=bool(cancel[i]) if cancel else False,
                       est=est[i] if est else None,
                       group=groups[i] if groups else "default"))
    return out


# representative graphs (listing order = label order)
REP = {
    "single": [[]],
    "pair": [[], []],
    "chain2": [[], [0]],
    "chain2r": [[1], []],
    "chain3": [[], [0], [1]],
    "chain3r": [[1], [2], []],
    "fork": [[], [0], [0]],
    "join": [[], [], [0, 1]],
    "joinr": [[1, 2], [], []],
    "diamond": [[], [0], [0], [1, 2]],
    "diamondr": [[1, 2], [3], [3], []],
    "twocomp": [[], [0], [], [2]],
    "chain4": [[], [0], [1], [2]],
    "wide5": [[], [], [0], [1], [2, 3]],
    # queue stress: L long, A fails, B1/B2 (blocked by A) and C (blocked by B1) flagged, X/Y ordinary
    "cancelfan7": [[], [], [1], [1], [2], [], []],
    "fan5": [[], [0], [0], [0], [0]],
    # a flagged job with two blockers behind a backlog of unblocked jobs
    "joinbacklog5": [[], [], [], [], [0, 1]],
    "indep11": [[] for _ in range(11)],
    "indep3": [[], [], []],
    "indep4": [[], [], [], []],
}


# ------------------------------------------------------------------------------ reference evaluator
def reference(jobs, exit_codes, missing=()):
    """The boring model: job -> 'successful' | 'failed' | 'canceled' | 'missing' | 'never'.

    In topological order, a job is canceled iff it has the flag and some blocker is failed or
    canceled; otherwise it runs and is successful iff its scripted exit code is 0.  `missing`:
    jobs that produce no outcome (lost node); a job that waits on a missing/never job never runs
    (unless it is flagged and another blocker failed: canceled).
    """
    by = {j["name"]: j for j in jobs}
    res = {}
    state = {}

    def ev(n):
        if n in res:
            return res[n]
        if state.get(n) == 1:
            res[n] = "never"  # cycle
            return "never"
        state[n] = 1
        j = by[n]
        outs = [ev(b) for b in j["blocked_by"]]
        if n in res:  # became 'never' through a cycle
            return res[n]
        if j["cancel"] and any(o in ("failed", "canceled") for o in outs):
            r = "canceled"
        elif any(o in ("missing", "never") for o in outs):
            r = "never"
        elif n in missing:
            r = "missing"
        else:
            code = exit_codes.get(n, 0)
            if isinstance(code, (list, tuple)):
                code = code[0]
            r = "successful" if code == 0 else "failed"
        res[n] = r
        state[n] = 2
        return r

    for n in by:
        ev(n)
    return res


# ------------------------------------------------------------------------------ pipelines (C15)
def pipeline_login(w):
    """Write stage configs + pipeline.json under <base>/in and start `jade pipeline submit`."""
    import copy

    from jade.models import HpcConfig, SubmitterParams
    from jade.models.pipeline import PipelineConfig, PipelineStage

    scen = w.scen
    base = os.path.dirname(w.root)
    stages = []
    for k, st in enumerate(scen["stages"], start=1):
        sub = dict(scen)
        sub["jobs"] = st["jobs"]
        sub["groups"] = [st["group"]]
        sub["mode"] = st.get("mode", "hpc")
        sub["hooks"] = dict(scen.get("stage_hooks") or {})
        key = "pipe-cfg-%d-%s" % (k, json.dumps([st, scen.get("with_groups"), scen.get("stage_hooks")], sort_keys=True, default=str))
        text = _cfg_cache.get(key)
        g = st["group"]
        local = st.get("mode") == "local"
        if local:
            hpc = HpcConfig(hpc_type="local", hpc={})
        else:
            hpc = HpcConfig(hpc_type="slurm", hpc={"account": "acct", "walltime": g["walltime"]})
        params = SubmitterParams(hpc_config=hpc, per_node_batch_size=g["size"], num_processes=g["nproc"],
                                 try_add_blocked_jobs=g["try_add"], max_nodes=g["max_nodes"],
                                 generate_reports=False, resource_monitor_type="none", resource_monitor_interval=None)
        if text is None:
            cfg = build_config(sub)
            if not st.get("with_groups", k % 2 == 0):
                cfg._submission_groups = []  # the stage's submitter params become the default group
            import io

            buf = io.StringIO()
            cfg.dump(filename=None, stream=buf)
            text = buf.getvalue()
            _cfg_cache[key] = text
        path = f"{base}/in/stage{k}.json"
        with open(path, "w") as f:
            f.write(text)
        stages.append(PipelineStage(config_file=path, stage_num=k, submitter_params=params, auto_config_cmd=None))
    pj = f"{base}/in/pipeline.json"
    with open(pj, "w") as f:
        f.write(PipelineConfig(stages=stages, stage_num=1).json(indent=2))
    argv = ["jade", "pipeline", "submit", pj, "-o", w.root]
    w.spawn("login", "login1", dict(scen["base_env"]), lambda: run_cli(argv), kind="login")


def current_stage_dir(w):
    try:
        with open(w.rootp + "pipeline.json") as f:
            d = json.load(f)
    except (OSError, ValueError):
        return None, None
    k = d.get("stage_num", 1)
    return d, f"{w.root}/output-stage{k}"


@guard("pipeline_idle_incomplete")
def _g_pipeline_idle(w):
    if w.sim.active_batches():
        return False
    if any(v.status == "ready" and v.pending is not None and v.pending.kind != "start" for v in w.vprocs):
        return False
    d, sd = current_stage_dir(w)
    if d is None or d.get("is_complete"):
        return False
    try:
        with open(sd + "/cluster_config.json") as f:
            c = json.load(f)
    except (OSError, ValueError):
        return False
    return not c.get("is_complete")


@guard("pipeline_stage2_started")
def _g_pipeline_stage2(w):
    d, sd = current_stage_dir(w)
    return d is not None and d.get("stage_num", 1) >= 2


def groups_file_text(scen):
    """Text of a submission-groups file (as written by `jade config save-submission-groups`) for scen's groups."""
    from jade.utils.utils import ExtendedJSONEncoder

    cfg = build_config(scen)
    return json.dumps([g.dict() for g in cfg.submission_groups], cls=ExtendedJSONEncoder, indent=1)


@guard("pipeline_stage_submitted")
def _g_pipeline_stage_submitted(w):
    """The current stage has cluster files (a user can run try-submit-jobs on it) and the pipeline is not complete."""
    d, sd = current_stage_dir(w)
    if d is None or d.get("is_complete"):
        return False
    return os.path.exists(sd + "/cluster_config.json") and os.path.exists(sd + "/job_status.json")
