"""Oracles for mode S.  `Obs` records ground truth at the process boundary; the property oracles
read it.  Oracles are harness code: they run with interception bypassed (World.emit)."""

import csv
import hashlib
import io
import json
import os
import re

from .scen import reference

RE_BATCH = re.compile(r"config_batch_(\d+)\.json$")


def read_json(path):
    try:
        with open(path) as f:
            return json.load(f)
    except (OSError, ValueError):
        return None


def read_rows(path):
    """Rows of a results csv as dicts (tolerant: harness-side reader)."""
    try:
        with open(path) as f:
            text = f.read()
    except OSError:
        return None
    rows = []
    lines = [l for l in text.split("\n") if l != ""]
    if not lines:
        return rows
    hdr = lines[0].split(",")
    for l in lines[1:]:
        parts = l.split(",")
        rows.append(dict(zip(hdr, parts)))
    return rows


def disk_rows(w, root=None):
    """job name -> list of (return_code, status, file) over node files and the processed file."""
    root = root or w.root
    out = {}
    files = [root + "/processed_results.csv"]
    rd = root + "/results"
    try:
        for n in sorted(os.listdir(rd)):
            if n.startswith("results_batch_") and n.endswith(".csv"):
                files.append(rd + "/" + n)
    except OSError:
        pass
    for p in files:
        rows = read_rows(p)
        if not rows:
            continue
        for r in rows:
            out.setdefault(r.get("name"), []).append(
                (r.get("return_code"), r.get("status"), os.path.basename(p))
            )
    return out


def classify(return_code, status):
    rc = int(return_code)
    if rc == 0 and status == "finished":
        return "successful"
    if rc != 0 and status == "finished":
        return "failed"
    if rc != 0 and status == "canceled":
        return "canceled"
    return f"unclassifiable({rc},{status})"


class Obs:
    """Ground-truth recorder shared by the property oracles (always first in the oracle list)."""

    def __init__(self):
        self.placed = {}  # job -> [(N, accepted, id)]
        self.batchN = {}
        self.cfg_writes = {}
        self.launch = {}
        self.launch_log = []  # (job, vp name, frozenset(names with rows on disk))
        self.exits = {}
        self.sbatch_log = []
        self.scancel_log = []
        self.cluster = None
        self.jobstatus = None
        self.completions = 0
        self.complete_seen = False
        self.cancel_seen = False
        self.sbatch_after_complete = []
        self.sbatch_after_cancel = []
        self.hooks = []
        self.results_json_at_complete = None
        self.epoch = 0
        self.crashes = []
        self.lock_timeouts = []
        self.nested_crashes = []

    def on_init(self, w, vp, d):
        w.obs = self

    # -- process boundary ------------------------------------------------------------------
    def on_sbatch(self, w, vp, d):
        m = RE_BATCH.search(d.get("config") or "")
        N = int(m.group(1)) if m else None
        rec = dict(vp=vp.name, accepted=d["accepted"], N=N, jobs=list(d["jobs"]), id=d.get("id"),
                   name=d.get("name"), error=d.get("error"), info=d, epoch=self.epoch,
                   after_complete=self.complete_seen, after_cancel=self.cancel_seen)
        self.sbatch_log.append(rec)
        for j in d["jobs"]:
            self.placed.setdefault(j, []).append((N, d["accepted"], d.get("id"), self.epoch))
        if N is not None:
            self.batchN[N] = self.batchN.get(N, 0) + 1
        if self.complete_seen:
            self.sbatch_after_complete.append(rec)
        if self.cancel_seen:
            self.sbatch_after_cancel.append(rec)

    def on_scancel(self, w, vp, d):
        self.scancel_log.append((vp.name, d["id"], self.cancel_seen))

    def on_launch(self, w, vp, d):
        j = d["job"]
        self.launch[j] = self.launch.get(j, 0) + 1
        rows = disk_rows(w, d["env"].get("JADE_RUNTIME_OUTPUT"))
        self.launch_log.append(dict(job=j, vp=vp.name, rows=frozenset(rows), env=d["env"],
                                    argv=d["argv"], epoch=self.epoch, live=len(vp.jobs),
                                    after_complete=self.complete_seen))

    def on_job_exit(self, w, vp, d):
        self.exits.setdefault(d["job"], []).append(d["code"])

    def on_hook(self, w, vp, d):
        disk = read_json(d["env"].get("JADE_RUNTIME_OUTPUT", w.root) + "/cluster_config.json") or {}
        self.hooks.append(dict(vp=vp.name, host=vp.host, argv=d["argv"], env=d["env"], rc=d["rc"],
                               n_sbatch=len(self.sbatch_log), n_launch=len(self.launch_log),
                               complete=bool(self.complete_seen or disk.get("is_complete")), kind=vp.kind,
                               rows=frozenset(disk_rows(w)), exits=dict(self.exits),
                               live=sorted(vp.jobs), launched=dict(self.launch)))

    def on_fwrite(self, w, vp, d):
        rel = d["rel"]
        if RE_BATCH.search(rel):
            self.cfg_writes[rel] = self.cfg_writes.get(rel, 0) + 1
        if rel == "results.json":
            self.summary_writes = getattr(self, "summary_writes", {})
            self.summary_writes[self.epoch] = self.summary_writes.get(self.epoch, 0) + 1
            w.emit("summary_written", vp=vp, n=self.summary_writes[self.epoch])

    def on_vend(self, w, vp, d):
        if d.get("crashed"):
            self.crashes.append((vp.name, d.get("exc"), vp.tb))

    def on_nested_start(self, w, vp, d):
        self.nested = getattr(self, "nested", [])
        self.nested.append((vp.name, tuple(d["argv"][:3])))

    def on_nested_crash(self, w, vp, d):
        self.nested_crashes.append((vp.name, " ".join(d["argv"][:3]), f"{type(d['exc']).__name__}: {d['exc']}", d["tb"]))

    def on_lock_timeout(self, w, vp, d):
        self.lock_timeouts.append((vp.name, d["rel"]))

    # -- persisted state -------------------------------------------------------------------
    def on_transition(self, w, vp, d):
        wr = w.written
        if "cluster_config.json" in wr or self.cluster is None:
            c = read_json(w.rootp + "cluster_config.json")
            if c is not None:
                old = self.cluster
                self.cluster = c
                if c.get("is_complete") and not (old or {}).get("is_complete"):
                    self.completions += 1
                    self.complete_seen = True
                    self.results_json_at_complete = read_json(w.rootp + "results.json")
                    w.emit("completed", vp=vp)
                if old is not None and old.get("is_complete") and not c.get("is_complete"):
                    # a resubmission starts a new epoch
                    self.epoch += 1
                    w.data["epoch"] = self.epoch
                    self.complete_seen = False
                    self.launch = {}
                    self.placed = {}
                    w.emit("epoch", vp=vp)
                if c.get("is_canceled") and not self.cancel_seen:
                    self.cancel_seen = True
                    w.emit("canceled", vp=vp)
        if "job_status.json" in wr or self.jobstatus is None:
            s = read_json(w.rootp + "job_status.json")
            if s is not None:
                self.jobstatus = s

    def digest(self):
        h = hashlib.blake2b(digest_size=8)
        h.update(repr(sorted((k, len(v)) for k, v in self.placed.items())).encode())
        h.update(repr(sorted(self.batchN.items())).encode())
        h.update(repr(sorted(self.cfg_writes.items())).encode())
        h.update(repr(sorted(self.launch.items())).encode())
        h.update(repr(sorted(getattr(self, "summary_writes", {}).items())).encode())
        h.update(repr((self.completions, self.complete_seen, self.cancel_seen, self.epoch,
                       len(self.hooks), len(self.scancel_log), len(self.crashes),
                       len(self.nested_crashes))).encode())
        return h.hexdigest()

    def on_end(self, w, vp, d):
        # outcome summary for "distinct outcomes" and differential checks
        rows = disk_rows(w)
        res = read_json(w.rootp + "results.json")
        c = read_json(w.rootp + "cluster_config.json") or {}
        cls = []
        if res is not None:
            for r in res.get("results", []):
                cls.append((r["name"], classify(r["return_code"], r["status"])))
            cls.append(("missing", tuple(res.get("missing_jobs", []))))
        final = dict(
            complete=bool(c.get("is_complete")),
            canceled=bool(c.get("is_canceled")),
            classes=tuple(sorted(map(str, cls))),
            batches=tuple(sorted((r["N"] if r["N"] is not None else -1, tuple(r["jobs"]), r["accepted"])
                                 for r in self.sbatch_log)),
            crashes=tuple(sorted((c_[0], c_[1]) for c_ in self.crashes)),
            nv=len(w.vprocs),
            n_sbatch=len(self.sbatch_log),
            n_launch=len(self.launch_log),
        )
        w.data["final"] = final
        w.data["outcome"] = hashlib.blake2b(repr(sorted(final.items())).encode(), digest_size=8).hexdigest()


class PropOracle:
    prop = "C00"

    def digest(self):
        return ""

    def v(self, w, msg, sig):
        w.violation(self.prop, msg, sig)


class C01(PropOracle):
    """Each job in at most one batch, batch ids unique, each job started at most once."""

    prop = "C01"

    def on_sbatch(self, w, vp, d):
        o = w.obs
        rec = o.sbatch_log[-1]
        if d.get("error"):
            self.v(w, f"sbatch of an unusable submission: {d['error']}", "sbatch-unusable")
            return
        if not d["jobs"]:
            self.v(w, f"empty batch {rec['N']} handed to the HPC", "empty-batch")
        have = disk_rows(w)
        for j in d["jobs"]:
            if j in have and len([p for p in o.placed.get(j, []) if p[3] == o.epoch]) <= 1:
                self.v(w, f"job {j} is handed to the HPC in batch {rec['N']} although it already has a recorded result {have[j][0][:2]}",
                       "placed-with-result")
        if len(set(d["jobs"])) != len(d["jobs"]):
            self.v(w, f"batch {rec['N']} lists a job twice: {d['jobs']}", "dup-in-batch")
        for j in d["jobs"]:
            pl = [p for p in o.placed[j] if p[3] == o.epoch]
            # a refused attempt followed by an accepted retry of the same batch is one placement
            if len({p[0] for p in pl}) > 1 or sum(1 for p in pl if p[1]) > 1:
                self.v(w, f"job {j} placed in batches {[p[0] for p in pl]} (handed to the HPC twice)",
                       f"double-placement")
        N = rec["N"]
        if N is not None:
            same = [r for r in o.sbatch_log if r["N"] == N and r["epoch"] == o.epoch]
            if sum(1 for r in same if r["accepted"]) > 1 or len({tuple(r["jobs"]) for r in same}) > 1:
                self.v(w, f"batch identifier {N} used for {len(same)} submissions {[r['jobs'] for r in same]}", "batch-id-reused")

    def on_fwrite(self, w, vp, d):
        rel = d["rel"]
        if RE_BATCH.search(rel) and w.obs.cfg_writes.get(rel, 0) > 1:
            self.v(w, f"{rel} written {w.obs.cfg_writes[rel]} times", "batch-config-rewritten")

    def on_launch(self, w, vp, d):
        j = d["job"]
        if w.obs.launch.get(j, 0) > 1:
            self.v(w, f"job {j} started {w.obs.launch[j]} times", "double-launch")

    def on_end(self, w, vp, d):
        o = w.obs
        c = o.cluster or {}
        if not c.get("is_complete") or w.data.get("faulty"):
            return
        rows = disk_rows(w)
        for j in w.scen["jobs"]:
            n = j["name"]
            pl = [p for p in o.placed.get(n, []) if p[1]]
            if len(pl) == 1:
                continue
            rr = rows.get(n, [])
            if len(pl) == 0 and rr and all(r[1] == "canceled" for r in rr) and o.launch.get(n, 0) == 0:
                continue
            self.v(w, f"at fault-free completion job {n} was placed in {len(pl)} batches, "
                      f"rows={rr}, launches={o.launch.get(n, 0)}", "completion-accounting")


class C02(PropOracle):
    """No job starts before each configured blocker has a recorded outcome."""

    prop = "C02"

    def on_launch(self, w, vp, d):
        rec = w.obs.launch_log[-1]
        by = {j["name"]: j for j in w.scen["jobs"]}
        j = by.get(d["job"])
        if j is None:
            self.v(w, f"unknown job launched: {d['job']}", "unknown-job")
            return
        need = set(j["blocked_by"])
        rerun = w.data.get("rerun")
        if rerun is not None:
            need &= rerun
        missing = sorted(b for b in need if b not in rec["rows"])
        if rerun is not None:
            # a blocker that is rerun must have a *new* row: the old one was erased by resubmit
            pass
        if missing:
            self.v(w, f"job {d['job']} started on {vp.name} while blockers {missing} have no "
                      f"recorded outcome (rows on disk: {sorted(rec['rows'])})", "launch-before-blocker")


def _results_check(w, prop_v, expect, what):
    """Compare results.json with the expected per-job classes."""
    res = read_json(w.rootp + "results.json")
    if res is None:
        prop_v(w, "complete submission without readable results.json", "no-results-json")
        return None
    got = {}
    for r in res.get("results", []):
        n = r["name"]
        if n in got:
            prop_v(w, f"results.json lists job {n} twice", "dup-result")
        got[n] = classify(r["return_code"], r["status"])
    return res, got


def _incomplete_at_end(w, v):
    """Fault-free execution that ran out of things to do (all processes ended, the documented recovery rounds used up)
    without a complete submission: the final results the property speaks about never appear."""
    c = w.obs.cluster or {}
    if w.data.get("faulty") or not c or c.get("is_complete"):
        return False
    if c.get("is_canceled"):
        return False
    rec = [x for x in w.vprocs if x.name.startswith("rec")]
    if not rec:
        return False
    crashes = [(x.name, str(x.exc)[:160]) for x in w.vprocs if getattr(x, "exc", None)]
    nested = (w.data.get("final") or {}).get("crashes") or ()
    v(w, f"the fault-free run never completed although the recovery try-submit-jobs was run (no final results); crashed processes: {crashes or list(nested)[:3]}",
      "no-completion")
    return True


class C03(PropOracle):
    """Final results complete and equal to the reference evaluation."""

    prop = "C03"

    def on_end(self, w, vp, d):
        c = w.obs.cluster or {}
        if _incomplete_at_end(w, self.v):
            return
        if not c.get("is_complete") or w.data.get("faulty"):
            return
        r = _results_check(w, self.v, None, "")
        if r is None:
            return
        res, got = r
        ref = reference(w.scen["jobs"], w.scen["exit_codes"])
        names = [j["name"] for j in w.scen["jobs"]]
        if res.get("missing_jobs"):
            self.v(w, f"fault-free completion reports missing jobs {res['missing_jobs']}", "missing-jobs")
        for n in names:
            if n not in got:
                self.v(w, f"job {n} has no entry in results.json", "no-entry")
            elif got[n] != ref[n]:
                self.v(w, f"job {n} classified {got[n]}, reference says {ref[n]}", "class-mismatch")
        extra = set(got) - set(names)
        if extra:
            self.v(w, f"results.json has entries for unknown jobs {sorted(extra)}", "extra-entry")
        s = res.get("results_summary", {})
        cnt = {k: sum(1 for v in got.values() if v == k) for k in ("successful", "failed", "canceled")}
        want = dict(num_successful=cnt["successful"], num_failed=cnt["failed"],
                    num_canceled=cnt["canceled"], num_missing=len(res.get("missing_jobs", [])))
        if {k: s.get(k) for k in want} != want:
            self.v(w, f"results_summary {s} != counts {want}", "tally-mismatch")


class C04(PropOracle):
    """Canceled (row 'canceled', rc != 0, zero launches) iff the reference says canceled."""

    prop = "C04"

    def on_end(self, w, vp, d):
        o = w.obs
        c = o.cluster or {}
        if _incomplete_at_end(w, self.v):
            return
        if not c.get("is_complete") or w.data.get("faulty"):
            return
        ref = reference(w.scen["jobs"], w.scen["exit_codes"])
        rows = disk_rows(w)
        for j in w.scen["jobs"]:
            n = j["name"]
            rr = rows.get(n, [])
            launches = o.launch.get(n, 0)
            canceled_row = [r for r in rr if r[1] == "canceled"]
            if ref[n] == "canceled":
                if launches:
                    self.v(w, f"job {n} must be canceled (a blocker failed) but was started", "canceled-job-ran")
                if not canceled_row:
                    self.v(w, f"job {n} must be canceled but has rows {rr}", "not-canceled")
                for r in canceled_row:
                    if int(r[0]) == 0:
                        self.v(w, f"canceled row of {n} has return code 0", "cancel-rc0")
            else:
                if canceled_row:
                    self.v(w, f"job {n} canceled although the reference says {ref[n]}", "wrongly-canceled")
                if launches != 1:
                    self.v(w, f"job {n} (reference {ref[n]}) was started {launches} times", "launch-count")

    def on_launch(self, w, vp, d):
        # a job that is already canceled on disk must not start
        rec = w.obs.launch_log[-1]
        ref = reference(w.scen["jobs"], w.scen["exit_codes"])
        if ref.get(d["job"]) == "canceled" and not w.data.get("faulty"):
            self.v(w, f"job {d['job']} started although a blocker failed/canceled and it is flagged",
                   "canceled-job-ran")


class C05(PropOracle):
    """Progress and single completion."""

    prop = "C05"

    def __init__(self):
        self.round_sbatch0 = {}
        self.rounds = 0
        self.rnd = {}

    def digest(self):
        return f"{self.rounds}{sorted((k, sorted(v.items())) for k, v in self.rnd.items())}{sorted(self.round_sbatch0.items())}"

    def on_actor_round(self, w, vp, d):
        if vp.name.startswith("rec"):
            self.round_sbatch0[vp.name] = (len(w.obs.sbatch_log), w.obs.completions)
            self.rounds += 1

    def on_actor_round_end(self, w, vp, d):
        if not vp.name.startswith("rec"):
            return
        s0, c0 = self.round_sbatch0[vp.name]
        o = w.obs
        new_sbatch = [r for r in o.sbatch_log[s0:] if r["accepted"]]
        if w.data.get("faulty"):
            return
        if not new_sbatch and o.completions == c0 and not (o.cluster or {}).get("is_complete"):
            c = read_json(w.rootp + "cluster_config.json") or {}
            busy = any(v.status == "ready" and v is not vp and v.pending is not None and v.pending.kind != "start" for v in w.vprocs)
            if c.get("submitter") is not None and busy:
                # refused because another live process (e.g. the try-submit-jobs started by a user's show-status while this
                # round was starting) holds the submitter role: that process is the "one try-submit-jobs" of the statement
                return
            self.v(w, f"recovery round {d['n']} of {vp.name} (exit {d['code']}) neither submitted a "
                      f"batch nor completed the submission", "recovery-no-progress")

    def on_completed(self, w, vp, d):
        o = w.obs
        if o.completions > 1 and o.epoch == 0 and not w.data.get("faulty"):
            pass
        # results summary must exist and list every job before the flag is set
        res = o.results_json_at_complete
        if res is None:
            self.v(w, "completion flag set before results.json was written", "flag-before-results")
            return
        if w.data.get("faulty") or (o.cluster or {}).get("is_canceled"):
            return
        if w.scen.get("refuse_scripts") and o.epoch == 0:
            return  # the scenario scripts a refused batch in the first run: jobs are legitimately missing
        names = {j["name"] for j in w.scen["jobs"]}
        got = {r["name"] for r in res.get("results", [])}
        if got != names:
            self.v(w, f"completion flag set while results.json lists {sorted(got)} of {sorted(names)}",
                   "flag-before-all-results")

    def on_sbatch(self, w, vp, d):
        if w.obs.complete_seen:
            self.v(w, f"sbatch of {d.get('name')} after the completion flag was set", "sbatch-after-complete")

    def on_summary_written(self, w, vp, d):
        if d["n"] > 1 and not w.data.get("faulty"):
            self.v(w, f"the completion sequence ran {d['n']} times in one fault-free submission (results summary rewritten by {vp.name})",
                   "completion-sequence-twice")

    def on_vstart(self, w, vp, d):
        if vp.kind == "login":
            self._round(w, vp)

    def _round(self, w, vp):
        r = self.rnd
        if vp.name not in r:
            r[vp.name] = dict(active_at_poll=len(w.sim.active_batches()), accepted=0)
        return r[vp.name]

    def on_cmd(self, w, vp, d):
        # this vproc is inside a submitter round: it polled the scheduler or submitted
        if d["prog"] == "squeue":
            self._round(w, vp)["active_at_poll"] = len(w.sim.active_batches())
        elif d["prog"] == "sbatch":
            r = self._round(w, vp)
            if d["rc"] == 0:
                r["accepted"] += 1

    def on_transition(self, w, vp, d):
        # (b) at the end of a fault-free round (the submitter demoted itself) no ready job is left
        # unsubmitted unless max-nodes is reached
        if "cluster_config.json" not in w.written or w.data.get("faulty"):
            return
        o = w.obs
        c, s = o.cluster, o.jobstatus
        if not c or not s or c.get("submitter") is not None:
            return
        rnd = self.rnd.pop(vp.name, None)
        if not rnd or c.get("is_complete") or c.get("is_canceled"):
            return
        if os.path.exists(w.rootp + "cluster_config.json.lock"):
            return
        mx = w.scen["groups"][0]["max_nodes"]
        if mx is not None and rnd["active_at_poll"] + rnd["accepted"] >= mx:
            return
        processed = {r.get("name") for r in (read_rows(w.rootp + "processed_results.csv") or [])}
        by = {j["name"]: j for j in w.scen["jobs"]}
        for js in s["jobs"]:
            if js["state"] != "not_submitted":
                continue
            cfg = by[js["name"]]
            if all(b in processed for b in cfg["blocked_by"]):
                self.v(w, f"round of {vp.name} left job {js['name']} unsubmitted although all its "
                          f"blockers {cfg['blocked_by']} have outcomes and "
                          f"{rnd['active_at_poll']}+{rnd['accepted']} < max_nodes={mx}",
                       "ready-job-left")

    def on_end(self, w, vp, d):
        o = w.obs
        if w.data.get("faulty"):
            return
        c = o.cluster or {}
        if o.epoch == 0 and o.completions > 1:
            self.v(w, f"completion flag set {o.completions} times", "completed-twice")
        rec = [v for v in w.vprocs if v.name.startswith("rec")]
        if rec and not c.get("is_complete") and c:
            # all recovery rounds used up (or never enabled) and still incomplete
            if any(v.status == "ready" and v.pending is not None for v in rec):
                # actor still waiting although nothing else can run: guard false = not idle?
                self.v(w, "execution ended incomplete with the recovery actor never enabled",
                       "stuck-incomplete")
            else:
                self.v(w, f"submission still incomplete after {self.rounds} recovery rounds", "livelock")


class C06(PropOracle):
    """Concurrency limits: batches <= max-nodes, processes per node <= limit."""

    prop = "C06"

    def on_sbatch(self, w, vp, d):
        if not d["accepted"]:
            return
        mx = w.scen["groups"][0]["max_nodes"]
        if mx is None:
            return
        active = w.sim.active_batches()
        if len(active) > mx:
            self.v(w, f"{len(active)} batches queued/running {[b.id for b in active]} > max_nodes={mx}",
                   "max-nodes-exceeded")

    def on_launch(self, w, vp, d):
        by = {j["name"]: j for j in w.scen["jobs"]}
        j = by.get(d["job"])
        if j is None:
            return
        g = {g["name"]: g for g in w.scen["groups"]}[j["group"]]
        limit = g["nproc"] if g["nproc"] is not None else w.scen.get("cpus", 2)
        if w.obs.epoch >= 1 and "resubmit_nproc" in w.scen:
            rn = w.scen["resubmit_nproc"]
            limit = rn if rn is not None else w.scen.get("cpus", 2)
        live = len(vp.jobs)
        if live > limit:
            self.v(w, f"{live} job processes live on {vp.name} {sorted(vp.jobs)} > limit {limit}",
                   "process-limit-exceeded")


ORACLES = {c.__name__: c for c in (Obs, C01, C02, C03, C04, C05, C06)}


def _td_minutes(walltime):
    h, m, s = (int(x) for x in walltime.split(":"))
    return h * 60 + m + s / 60.0


class C07(PropOracle):
    """Every batch respects its group's size/time limit, one group per batch, group's HPC parameters
    and run options; blocked jobs only with all unfinished blockers in the batch."""

    prop = "C07"

    def on_sbatch(self, w, vp, d):
        self.check_batch(w, d, d.get("name"))

    def check_batch(self, w, d, label):
        from .echecks import ref_script

        if d.get("error"):
            self.v(w, f"unusable submission {label}: {d['error']}", "unusable")
            return
        jobs = d["jobs"]
        by = {j["name"]: j for j in w.scen["jobs"]}
        groups = {g["name"]: g for g in w.scen["groups"]}
        if getattr(w, "obs", None) is not None and w.obs.epoch >= 1 and w.scen.get("resubmit_groups"):
            groups = {g["name"]: g for g in w.scen["resubmit_groups"]}  # resubmit-jobs -s <file>
        if not jobs:
            self.v(w, f"batch {label} is empty", "empty-batch")
            return
        gs = {by[j]["group"] for j in jobs if j in by}
        if len(gs) != 1 or any(j not in by for j in jobs):
            self.v(w, f"batch {label} mixes submission groups {sorted(gs)}: {jobs}", "mixed-groups")
            return
        g = groups[gs.pop()]
        if g["time_based"]:
            tot = sum(by[j]["est"] or 0 for j in jobs)
            cap = _td_minutes(g["walltime"]) * (g["nproc"] or 1)
            if tot > cap + 1e-9:
                self.v(w, f"batch {label} {jobs}: estimated minutes {tot} > walltime x processes = {cap}", "time-limit")
        else:
            if len(jobs) > g["size"]:
                self.v(w, f"batch {label} has {len(jobs)} jobs > per-node batch size {g['size']}", "size-limit")
        # submission script == reference rendering of that group's SLURM fields
        m = RE_BATCH.search(d["config"])
        N = m.group(1) if m else "?"
        want_name = f"{g.get('job_prefix', 'job')}_batch_{N}"
        hp = dict(g.get("slurm") or {})
        exp = ref_script(want_name, d["run_script"], w.root, "acct", g["walltime"], hp)
        if d["script_text"] != exp:
            self.v(w, f"submission script of batch {label} (group {g['name']}):\n{d['script_text']}\n!= reference\n{exp}", "script-mismatch")
        if os.path.basename(d["script"]) != want_name + ".sh":
            self.v(w, f"submission script file {d['script']} for batch named {want_name}", "script-name")
        # run line parsed by JADE's own run-jobs command
        from jade.cli.run_jobs import run_jobs as run_jobs_cmd

        argv = d["run_argv"]
        try:
            ctx = run_jobs_cmd.make_context("run-jobs", list(argv[2:]))
            p = ctx.params
        except Exception as e:  # noqa
            self.v(w, f"run line of batch {label} not parsable by run-jobs: {argv}: {e}", "run-line-unparsable")
            return
        want = dict(distributed_submitter=bool(g["distributed"]), output=w.root,
                    num_parallel_processes_per_node=g["nproc"], verbose=bool(g.get("verbose", False)))
        got = {k: p.get(k) for k in want}
        if got != want:
            self.v(w, f"run options of batch {label} (group {g['name']}): {got} != {want}", "run-options")
        if RE_BATCH.search(p.get("config_file") or "") is None:
            self.v(w, f"run line of batch {label} names config {p.get('config_file')}", "run-config")
        # blocked_by handed to the node
        rows = disk_rows(w)
        jb = d.get("job_blocked_by", {})
        for j in jobs:
            listed = set(jb.get(j, []))
            if listed and not g["try_add"]:
                self.v(w, f"batch {label}: job {j} carries blockers {sorted(listed)} although try-add-blocked is off", "blocked-without-try-add")
            if not listed.issubset(jobs):
                self.v(w, f"batch {label} {jobs}: job {j} waits for {sorted(listed - set(jobs))} which are not in the batch", "blocker-outside-batch")
            unlisted = set(by[j]["blocked_by"]) - listed
            rerun = w.data.get("rerun")
            for b in sorted(unlisted):
                if rerun is not None and b not in rerun:
                    continue
                if b not in rows:
                    self.v(w, f"batch {label}: job {j} included although blocker {b} has no outcome and is not handed to the node", "unfinished-blocker-dropped")


class C07Dry(C07):
    """Dry run: same first-round batches on disk, nothing handed to the HPC, nothing started."""

    def on_sbatch(self, w, vp, d):
        self.v(w, f"sbatch {d.get('name')} issued in dry-run mode", "dry-run-sbatch")

    def on_launch(self, w, vp, d):
        self.v(w, f"job {d['job']} started in dry-run mode", "dry-run-launch")

    def on_end(self, w, vp, d):
        # read the batches that were written and apply the same checks
        from .sim import SimSlurm

        found = {}
        for n in sorted(os.listdir(w.root)):
            if re.match(r".*_batch_\d+\.sh$", n) and not n.startswith("run_batch_"):
                info = w.sim._parse_submission(os.path.join(w.root, n))
                self.check_batch(w, info, n)
                m = RE_BATCH.search(info.get("config") or "")
                found[int(m.group(1)) if m else -1] = tuple(info["jobs"])
        w.data["dry_batches"] = found
        want = w.scen.get("expect_batches")
        if want is not None and {int(k): tuple(v) for k, v in want.items()} != found:
            self.v(w, f"dry run wrote batches {found}, the real first round submits {want}", "dry-run-batches-differ")


class FirstRound(PropOracle):
    """Helper: records the login round's batches (used to compute the dry-run expectation)."""

    prop = "C07"

    def on_end(self, w, vp, d):
        w.data["final"] = dict(w.data.get("final") or {})
        w.data["final"]["first_round"] = {r["N"]: tuple(r["jobs"]) for r in w.obs.sbatch_log if r["vp"] == "login"}


ORACLES.update({c.__name__: c for c in (C07, C07Dry, FirstRound)})


STATE_RANK = {"not_submitted": 0, "submitted": 1, "done": 2}


class C09(PropOracle):
    """Persisted status consistent (whenever the cluster lock is free) and monotone."""

    prop = "C09"

    def __init__(self):
        self.prev = None

    def _read_version(self, path):
        try:
            with open(path) as f:
                return int(f.read().strip())
        except (OSError, ValueError):
            return None

    def on_transition(self, w, vp, d):
        wr = w.written
        if not (wr & {"cluster_config.json", "job_status.json", "config_version.txt", "job_status_version.txt",
                      "processed_results.csv", "cluster_config.json.lock"}):
            return
        self.observe(w, vp)

    def observe(self, w, vp):
        r = w.rootp
        if os.path.exists(r + "cluster_config.json.lock"):
            return  # status cannot be read now
        c = read_json(r + "cluster_config.json")
        s = read_json(r + "job_status.json")
        if c is None or s is None:
            if self.prev is not None:
                self.v(w, "status files unreadable while the cluster lock is free "
                          f"(cluster_config={'ok' if c else 'unreadable'}, job_status={'ok' if s else 'unreadable'})",
                       "unreadable")
            return
        who = vp.name if vp is not None else "?"
        cv, sv = self._read_version(r + "config_version.txt"), self._read_version(r + "job_status_version.txt")
        n = c["num_jobs"]
        done = [j["name"] for j in s["jobs"] if j["state"] == "done"]
        sub = [j["name"] for j in s["jobs"] if j["state"] == "submitted"]
        if not (0 <= c["completed_jobs"] <= c["submitted_jobs"] <= n):
            self.v(w, f"after {who}: completed={c['completed_jobs']} submitted={c['submitted_jobs']} total={n}", "counter-order")
        if c["completed_jobs"] != len(done):
            self.v(w, f"after {who}: completed_jobs={c['completed_jobs']} but {len(done)} jobs are done {done}", "completed-count")
        if c["submitted_jobs"] != len(done) + len(sub):
            self.v(w, f"after {who}: submitted_jobs={c['submitted_jobs']} but {len(sub)} submitted + {len(done)} done", "submitted-count")
        if len(s["jobs"]) != n:
            self.v(w, f"num_jobs={n} but job_status lists {len(s['jobs'])}", "num-jobs")
        rows = read_rows(r + "processed_results.csv")
        have = {x.get("name") for x in rows or []}
        nores = [j for j in done if j not in have]
        if nores and not os.path.exists(r + "processed_results.csv.lock"):
            self.v(w, f"after {who}: jobs {nores} are done without a recorded result", "done-without-result")
        if cv != c["version"]:
            self.v(w, f"config_version.txt={cv} but cluster_config.json has version {c['version']}", "config-version-file")
        if sv != s["version"]:
            self.v(w, f"job_status_version.txt={sv} but job_status.json has version {s['version']}", "status-version-file")
        for j in s["jobs"]:
            if j["state"] != "not_submitted" and j["blocked_by"]:
                self.v(w, f"job {j['name']} is {j['state']} with remaining blockers {j['blocked_by']}", "blockers-after-submit")
        p = self.prev
        cur = dict(c=c, s=s)
        if p is not None:
            pc, ps = p["c"], p["s"]
            resub = pc.get("is_complete") and not c.get("is_complete")
            strip = lambda d_: {k: v for k, v in d_.items() if k != "version"}
            if c["version"] < pc["version"] or s["version"] < ps["version"]:
                self.v(w, f"version decreased: config {pc['version']}->{c['version']} status {ps['version']}->{s['version']}", "version-decrease")
            if strip(c) != strip(pc) and c["version"] <= pc["version"]:
                self.v(w, f"cluster config changed without a version increase ({pc['version']}->{c['version']})", "config-change-no-version")
            if strip(s) != strip(ps) and s["version"] <= ps["version"]:
                self.v(w, f"job status changed without a version increase ({ps['version']}->{s['version']})", "status-change-no-version")
            if not resub:
                if c["submitted_jobs"] < pc["submitted_jobs"] or c["completed_jobs"] < pc["completed_jobs"]:
                    self.v(w, f"counters decreased: submitted {pc['submitted_jobs']}->{c['submitted_jobs']} completed {pc['completed_jobs']}->{c['completed_jobs']}", "counter-decrease")
                if pc.get("is_complete") and not c.get("is_complete"):
                    self.v(w, "a complete submission became incomplete", "complete-reverted")
                pj = {j["name"]: j for j in ps["jobs"]}
                for j in s["jobs"]:
                    o = pj.get(j["name"])
                    if o is None:
                        continue
                    if STATE_RANK[j["state"]] < STATE_RANK[o["state"]]:
                        self.v(w, f"job {j['name']} went {o['state']} -> {j['state']}", "state-regress")
                    if not set(j["blocked_by"]) <= set(o["blocked_by"]):
                        self.v(w, f"remaining blockers of {j['name']} grew: {o['blocked_by']} -> {j['blocked_by']}", "blockers-grew")
        self.prev = cur


class C14(PropOracle):
    """Cancel is final."""

    prop = "C14"

    def __init__(self):
        self.ids_at_cancel = None
        self.rows_at_cancel = None

    def digest(self):
        return repr((self.ids_at_cancel, sorted(self.rows_at_cancel or ())))

    def on_canceled(self, w, vp, d):
        s = read_json(w.rootp + "job_status.json") or {}
        asked = {x[1] for x in w.obs.scancel_log}
        # every batch that is active: JADE's own list and the scheduler's ground truth (a batch that is still
        # pending/running although JADE forgot its id was not asked to be canceled either)
        truth = [b.id for b in w.sim.batches.values() if b.state in ("PENDING", "RUNNING")]
        self.ids_at_cancel = tuple(sorted(set(s.get("hpc_job_ids", [])) | set(truth)))
        self.rows_at_cancel = {k: tuple(v) for k, v in disk_rows(w).items()}
        miss = [i for i in self.ids_at_cancel if i not in asked and not w.data.get("faulty_non_squeue")]
        if miss:
            self.v(w, f"submission marked canceled but active batches {miss} were not asked to be canceled "
                      f"(scancel issued for {sorted(asked)})", "active-batch-not-cancelled")

    def on_sbatch(self, w, vp, d):
        if w.obs.cancel_seen:
            self.v(w, f"{vp.name} handed batch {d.get('name')} {d['jobs']} to the HPC after the submission was canceled",
                   "sbatch-after-cancel")

    def on_end(self, w, vp, d):
        o = w.obs
        if not o.cancel_seen or w.data.get("faulty"):
            return
        c = o.cluster or {}
        if not c.get("is_complete"):
            if w.scen.get("expect_complete_after_cancel", True):
                self.v(w, "canceled submission did not reach completion", "cancel-not-complete")
            return
        res = read_json(w.rootp + "results.json")
        if res is None:
            self.v(w, "canceled+complete submission without results.json", "no-results")
            return
        got = {r["name"]: (str(r["return_code"]), r["status"]) for r in res.get("results", [])}
        for n, rr in (self.rows_at_cancel or {}).items():
            if n not in got:
                self.v(w, f"result of {n} recorded before the cancel is not in the final results", "result-lost")
            elif (rr[0][0], rr[0][1]) != got[n]:
                self.v(w, f"result of {n} changed: {rr[0][:2]} -> {got[n]}", "result-changed")
        rows = disk_rows(w)
        names = {j["name"] for j in w.scen["jobs"]}
        for n in sorted(names):
            if n not in rows and n not in res.get("missing_jobs", []):
                self.v(w, f"job {n} never produced a result but is not reported missing", "not-missing")
            if n in res.get("missing_jobs", []) and n in got:
                self.v(w, f"job {n} reported both missing and with a result", "missing-and-result")


class C16(PropOracle):
    """Setup/teardown/node hooks exactly once, at the right time."""

    prop = "C16"

    def on_hook(self, w, vp, d):
        h = w.obs.hooks[-1]
        kind = h["argv"][1] if len(h["argv"]) > 1 and h["argv"][0] == "hook" else None
        if kind is None:
            return
        env = h["env"]
        if env.get("JADE_RUNTIME_OUTPUT") != w.root:
            self.v(w, f"{kind} hook run with JADE_RUNTIME_OUTPUT={env.get('JADE_RUNTIME_OUTPUT')!r}", f"{kind}-env")
        same = [x for x in w.obs.hooks if x["argv"][:2] == h["argv"][:2]]
        if kind == "setup":
            if len(same) > 1:
                self.v(w, f"setup command run {len(same)} times", "setup-twice")
            if h["n_sbatch"] or h["n_launch"]:
                self.v(w, f"setup command run after {h['n_sbatch']} sbatch / {h['n_launch']} launches", "setup-late")
            if h["host"] != "login1":
                self.v(w, f"setup command run on {h['host']}, not on the submitting host", "setup-host")
        elif kind == "teardown":
            n_done = sum(1 for x in same if x["complete"] is False)
            if h["complete"]:
                self.v(w, "teardown command run after the completion flag was set", "teardown-after-flag")
            if len(same) > w.obs.completions + 1:
                self.v(w, f"teardown command run {len(same)} times for {w.obs.completions + 1} completion(s)", "teardown-twice")
            hx_ = w.scen.get("hook_exit_by_kind") or {}
            if not w.data.get("faulty") and not w.scen.get("refuse_scripts") and not hx_.get("setup") and not hx_.get("node_setup"):
                names = {j["name"] for j in w.scen["jobs"]}
                if not names <= h["rows"]:
                    self.v(w, f"teardown command run while jobs {sorted(names - h['rows'])} have no outcome", "teardown-early")
        elif kind in ("node_setup", "node_teardown"):
            mine = [x for x in same if x["vp"] == h["vp"]]
            if len(mine) > 1:
                self.v(w, f"{kind} command run {len(mine)} times on {h['vp']}", f"{kind}-twice")
            if h["kind"] == "node" and "JADE_SUBMISSION_GROUP" not in env:
                self.v(w, f"{kind} command run without JADE_SUBMISSION_GROUP", f"{kind}-env")
            elif h["kind"] == "node":
                b = w.sim.batches.get(vp.batch_id)
                by = {j["name"]: j for j in w.scen["jobs"]}
                want = {by[j]["group"] for j in (b.jobs if b else []) if j in by}
                if want and env.get("JADE_SUBMISSION_GROUP") not in want:
                    self.v(w, f"{kind} command of batch {b.jobs} run with JADE_SUBMISSION_GROUP={env.get('JADE_SUBMISSION_GROUP')}", f"{kind}-group")
            launched_here = [l for l in w.obs.launch_log if l["vp"] == h["vp"]]
            if kind == "node_setup" and launched_here:
                self.v(w, f"node setup command run on {h['vp']} after {len(launched_here)} job(s) of the batch started", "node-setup-late")
            if kind == "node_teardown":
                if h["live"]:
                    self.v(w, f"node teardown command run on {h['vp']} while jobs {h['live']} are running", "node-teardown-early")
                b = w.sim.batches.get(vp.batch_id) if vp.kind == "node" else None
                if b is not None and not w.data.get("faulty"):
                    notyet = [j for j in b.jobs if j not in h["rows"]]
                    if notyet:
                        self.v(w, f"node teardown command run on {h['vp']} before jobs {notyet} of the batch ended", "node-teardown-early")

    def on_end(self, w, vp, d):
        if w.data.get("faulty"):
            return
        o = w.obs
        hooks = w.scen.get("hooks", {})
        c = o.cluster or {}
        cnt = lambda k: sum(1 for x in o.hooks if x["argv"][:2] == ["hook", k])
        local = w.scen.get("mode") == "local"
        if hooks.get("setup") and cnt("setup") != 1:
            self.v(w, f"setup command run {cnt('setup')} times", "setup-count")
        hx = w.scen.get("hook_exit_by_kind") or {}
        if hx.get("setup") or hx.get("node_setup"):
            # a FAILING setup / node setup command: it ran once (per batch), and nothing of what it guards was started
            if hx.get("setup") and any(r["accepted"] and r["vp"] == "login" for r in o.sbatch_log):
                # (a try-submit-jobs that the user runs afterwards is the user's decision, not judged here)
                self.v(w, "submit-jobs handed a batch to the HPC although its setup command had failed", "submitted-after-failed-setup")
            if hx.get("node_setup"):
                for b in w.sim.batches.values():
                    n = sum(1 for x in o.hooks if x["argv"][:2] == ["hook", "node_setup"] and x["vp"] == f"n{b.id}")
                    if n > 1:
                        self.v(w, f"failing node setup command run {n} times for batch {b.id}", "node_setup-count")
                    if any(l["vp"] == f"n{b.id}" for l in o.launch_log):
                        self.v(w, f"jobs of batch {b.id} were started although its node setup command failed", "launch-after-failed-node-setup")
            return
        if c.get("is_complete") or local:
            ncomp = max(o.completions, 1) if not local else 1
            if any(a.get("name", "").startswith("resub") for a in w.scen.get("actors", [])) and o.completions < 2:
                self.v(w, f"resubmission scenario ended with {o.completions} completion(s)", "resubmission-did-not-complete")
            if hooks.get("teardown") and cnt("teardown") != ncomp:
                self.v(w, f"teardown command run {cnt('teardown')} times for {ncomp} completion(s)", "teardown-count")
        # per batch
        for b in w.sim.batches.values():
            for k in ("node_setup", "node_teardown"):
                if hooks.get(k):
                    n = sum(1 for x in o.hooks if x["argv"][:2] == ["hook", k] and x["vp"] == f"n{b.id}")
                    if n != 1 and b.vp is not None and b.vp.status != "dead":
                        self.v(w, f"{k} command run {n} times for batch {b.id} {b.jobs}", f"{k}-count")
        if local:
            for k in ("node_setup", "node_teardown"):
                if hooks.get(k) and cnt(k) != 1:
                    self.v(w, f"{k} command run {cnt(k)} times in local mode", f"{k}-count")
        # configuring hooks (even failing teardown hooks) never prevents the node's hand-over
        if not local:
            ran = {n for (n, a) in getattr(o, "nested", []) if a[:2] == ("jade", "try-submit-jobs")}
            by = {j["name"]: j for j in w.scen["jobs"]}
            gmap = {g["name"]: g for g in w.scen["groups"]}
            for b in w.sim.batches.values():
                if b.vp is None or b.vp.status != "done":
                    continue
                grp = gmap.get(by[b.jobs[0]]["group"]) if b.jobs and b.jobs[0] in by else None
                if grp is not None and grp["distributed"] and b.vp.name not in ran:
                    self.v(w, f"node {b.vp.name} (batch {b.jobs}) ended without running try-submit-jobs with hooks "
                              f"{sorted(k for k, v in hooks.items() if v)} configured (hook exit codes: {w.scen.get('hook_exit_by_kind')})", "node-no-handover")
        if w.scen.get("refuse_scripts"):
            # jobs are legitimately missing; the remaining clauses (all results recorded) do not apply
            return
        # configuring hooks never prevents results from being recorded / the node's try-submit
        rows = disk_rows(w)
        names = [j["name"] for j in w.scen["jobs"]]
        miss = [n for n in names if n not in rows]
        if miss:
            self.v(w, f"jobs {miss} have no recorded result with hooks {sorted(k for k, v in hooks.items() if v)} configured", "hooks-lose-results")
        if not local and not c.get("is_complete"):
            self.v(w, f"submission with hooks {sorted(k for k, v in hooks.items() if v)} did not complete", "hooks-no-completion")
        for (name, exc, tb) in o.crashes:
            self.v(w, f"process {name} crashed with hooks configured: {exc}", "hooks-crash")


ORACLES.update({c.__name__: c for c in (C09, C14, C16)})


def full_rows(w):
    """processed_results.csv rows keyed by job name: the fields C13 names."""
    out = {}

    def num(x):
        try:
            return float(x)
        except (TypeError, ValueError):
            return x

    for r in read_rows(w.rootp + "processed_results.csv") or []:
        out.setdefault(r.get("name"), []).append(
            (num(r.get("return_code")), r.get("status"), num(r.get("exec_time_s")), num(r.get("completion_time"))))
    return out


def dependents_closure(jobs, selected):
    sel = set(selected)
    changed = True
    while changed:
        changed = False
        for j in jobs:
            if j["name"] not in sel and set(j["blocked_by"]) & sel:
                sel.add(j["name"])
                changed = True
    return sel


class C13(PropOracle):
    """Resubmission reruns exactly the selected jobs and their dependents; refuses when incomplete."""

    prop = "C13"

    def __init__(self):
        self.cmds = []  # one record per resubmit command
        self.active = None

    def digest(self):
        return repr([(c["vp"], c.get("code"), sorted(c.get("rerun") or ()), c["others_ran"], c.get("ended", False))
                     for c in self.cmds])

    def on_actor_round(self, w, vp, d):
        if not vp.name.startswith("resub"):
            return
        actor = next(a for a in w.scen["actors"] if a["name"] == vp.name)
        argv = actor["argv"]
        flags = dict(failed="--no-failed" not in argv, missing="--no-missing" not in argv,
                     successful="--successful" in argv)
        c = read_json(w.rootp + "cluster_config.json") or {}
        s = read_json(w.rootp + "job_status.json") or {}
        idle = not any(v.status == "ready" and v is not vp and v.pending is not None and v.pending.kind != "start" for v in w.vprocs)
        rec = dict(vp=vp.name, host=vp.host, flags=flags, complete=bool(c.get("is_complete")), cluster=c, status=s, idle=idle,
                   rows=full_rows(w), allrows=disk_rows(w), launch0=len(w.obs.launch_log), others_ran=False,
                   sbatch0=len(w.obs.sbatch_log), lock_before=os.path.exists(w.rootp + "cluster_config.json.lock"))
        if rec["complete"]:
            res = read_json(w.rootp + "results.json") or {}
            cls = {r["name"]: classify(r["return_code"], r["status"]) for r in res.get("results", [])}
            # the flags select by what the jobs actually did: the outcomes recorded in the results files
            # (on a correctly completed submission the summary in results.json says the same)
            truth = {}
            for n_, rr_ in rec["allrows"].items():
                try:
                    truth[n_] = classify(rr_[-1][0], rr_[-1][1])
                except (TypeError, ValueError):
                    truth = None
                    break
            if truth is not None and truth != cls:
                rec["summary_differs"] = (dict(cls), dict(truth))
                cls = truth
            names = [j["name"] for j in w.scen["jobs"]]
            sel = set()
            if flags["failed"]:
                sel |= {n for n, k in cls.items() if k in ("failed", "canceled")}
            if flags["successful"]:
                sel |= {n for n, k in cls.items() if k == "successful"}
            if flags["missing"]:
                sel |= {n for n in names if n not in cls}
            rec["selected"] = sel
            rec["rerun"] = dependents_closure(w.scen["jobs"], sel)
            w.data["rerun"] = rec["rerun"]
            rec["classes"] = cls
        self.cmds.append(rec)
        self.active = rec

    def on_transition(self, w, vp, d):
        a = self.active
        if a is not None and vp is not None and vp.name != a["vp"]:
            a["others_ran"] = True

    def on_actor_round_end(self, w, vp, d):
        if not vp.name.startswith("resub"):
            return
        a = self.active
        self.active = None
        a["code"] = d["code"]
        a["ended"] = True
        if not a["complete"]:
            self._check_refusal(w, vp, a)
        else:
            c = read_json(w.rootp + "cluster_config.json") or {}
            busy = any(v.status == "ready" and v is not vp and v.pending is not None and v.pending.kind != "start" for v in w.vprocs)
            if c.get("submitter") is not None and not busy and not os.path.exists(w.rootp + "cluster_config.json.lock"):
                self.v(w, f"resubmit-jobs ended (exit {a['code']}) with the submitter role still recorded ({c.get('submitter')!r}) while no process is running: "
                          "every later resubmit-jobs / try-submit-jobs is refused", "resubmit-left-submitter-role")

    def on_vend(self, w, vp, d):
        if vp.name.startswith("resub") and d.get("crashed") and self.active is not None:
            a = self.active
            self.active = None
            a["code"] = "crash: %s" % d.get("exc")
            a["ended"] = True
            a["crashed"] = True
            if not a["complete"]:
                self._check_refusal(w, vp, a)
            else:
                c = read_json(w.rootp + "cluster_config.json") or {}
                mine = [f for f in (w.data.get("faults") or []) if f[0] == vp.name]
                busy = any(v.status == "ready" and v is not vp and v.pending is not None and v.pending.kind != "start" for v in w.vprocs)
                if (c.get("submitter") is not None and not busy and not os.path.exists(w.rootp + "cluster_config.json.lock")
                        and all(f[1].startswith("cmd:") for f in mine)):
                    # (a failing scheduler command is a clean failure: nothing prevents the command from giving the role back)
                    self.v(w, f"resubmit-jobs failed ({a['code']}) and left the submitter role recorded ({c.get('submitter')!r}) while no process is running: "
                              "every later resubmit-jobs / try-submit-jobs is refused", "resubmit-left-submitter-role")
                if c.get("is_complete") and full_rows(w) == a["rows"]:
                    a["aborted"] = True  # gave up before changing anything (e.g. somebody else is submitter)
                    if a["idle"] and not any(f[0] == vp.name for f in (w.data.get("faults") or [])):
                        self.v(w, f"resubmit-jobs failed with {a['code']} on a complete submission on which nothing else was running "
                                  f"(submitter on disk: {a['cluster'].get('submitter')!r})", "resubmit-failed-on-idle-complete")

    def _check_refusal(self, w, vp, a):
        if a["code"] != 1:
            self.v(w, f"resubmit-jobs on an incomplete submission ended with {a['code']!r} instead of refusing with exit code 1", "refusal-exit")
        if len(w.obs.sbatch_log) > a["sbatch0"] and not a["others_ran"]:
            self.v(w, "resubmit-jobs on an incomplete submission submitted a batch", "refusal-sbatch")
        if os.path.exists(w.rootp + "cluster_config.json.lock") and not a["lock_before"] and not any(
                (w.rootp + "cluster_config.json.lock") in v.holding for v in w.vprocs if v.status == "ready"):
            self.v(w, "resubmit-jobs on an incomplete submission left the cluster lock file behind (every later command blocks)", "refusal-lock-left")
        if a["others_ran"]:
            return
        c = read_json(w.rootp + "cluster_config.json") or {}
        s = read_json(w.rootp + "job_status.json") or {}
        for k in ("submitter", "submitted_jobs", "completed_jobs", "is_complete", "num_jobs"):
            if c.get(k) != a["cluster"].get(k):
                self.v(w, f"refused resubmit-jobs changed {k}: {a['cluster'].get(k)!r} -> {c.get(k)!r}", f"refusal-changed-{k}")
        if s.get("jobs") != a["status"].get("jobs") or s.get("hpc_job_ids") != a["status"].get("hpc_job_ids"):
            self.v(w, "refused resubmit-jobs changed the job states", "refusal-changed-jobs")
        if full_rows(w) != a["rows"]:
            self.v(w, "refused resubmit-jobs changed the results", "refusal-changed-results")

    def on_launch(self, w, vp, d):
        # dependency order inside a resubmission: a rerun blocker needs a NEW row (old ones were erased)
        cm = [c for c in self.cmds if c["complete"] and not c.get("aborted")]
        if not cm:
            return
        a = cm[-1]
        j = d["job"]
        by = {x["name"]: x for x in w.scen["jobs"]}
        rows_now = w.obs.launch_log[-1]["rows"]
        early = sorted(b for b in by[j]["blocked_by"] if b in a["rerun"] and b not in rows_now) if j in by else []
        if early:
            self.v(w, f"rerun job {j} started before its rerun blockers {early} have new outcomes", "rerun-order")
        if j not in a["rerun"]:
            self.v(w, f"job {j} was rerun although it is neither selected ({sorted(a['selected'])}, flags {a['flags']}) nor a dependent", "unselected-job-rerun")

    def on_end(self, w, vp, d):
        cm = [c for c in self.cmds if c["complete"] and not c.get("aborted")]
        o = w.obs
        c = o.cluster or {}
        failed_cmds = [x for x in self.cmds if x.get("crashed") or (x["complete"] and x.get("code") not in (0,))]
        if any(x.get("crashed") or (x["complete"] and isinstance(x.get("code"), int) and x.get("code") not in (0, 1)) for x in self.cmds):
            pass
        # a transient failure of a scheduler command (or a full disk at one write) inside the command or a round of the
        # resubmission is no excuse: the recovery rounds that follow must still bring the submission to completion
        soft = all(f[2] in ("fail", "fail-all", "edquot") for f in (w.data.get("faults") or []))
        if self.cmds and not c.get("is_complete") and (not w.data.get("faulty") or soft) and any(v_.name.startswith("rec") for v_ in w.vprocs):
            last = self.cmds[-1]
            self.v(w, f"after resubmit-jobs ({last['vp']} ended with {last.get('code')!r}) the submission never completed again "
                      f"although try-submit-jobs was run (submitter={c.get('submitter')!r}, lock left={os.path.exists(w.rootp + 'cluster_config.json.lock')})",
                   "no-way-forward")
            return
        if not cm or not c.get("is_complete"):
            return
        # compare against the LAST successful resubmission and the launches since it
        a = cm[-1]
        since = [l["job"] for l in o.launch_log[a["launch0"]:]]
        cnt = {}
        for j in since:
            cnt[j] = cnt.get(j, 0) + 1
        rows = full_rows(w)
        res = read_json(w.rootp + "results.json") or {}
        got = {}
        for r in res.get("results", []):
            got[r["name"]] = got.get(r["name"], 0) + 1
        names = [j["name"] for j in w.scen["jobs"]]
        for n in names:
            if n in a["rerun"]:
                if cnt.get(n, 0) > 1:
                    self.v(w, f"job {n} rerun {cnt[n]} times by one resubmission", "rerun-twice")
                if cnt.get(n, 0) == 0 and not any(r[1] == "canceled" for r in rows.get(n, [])):
                    # (resubmissions of the explored scenarios are fault-free: nothing can go missing again)
                    self.v(w, f"job {n} is selected for resubmission (or depends on a selected job) but was not rerun; "
                              f"rows={rows.get(n)} missing={res.get('missing_jobs')}", "selected-not-rerun")
            else:
                if cnt.get(n, 0):
                    self.v(w, f"job {n} not selected (flags {a['flags']}, selected {sorted(a['selected'])}) but rerun", "unselected-job-rerun")
                if rows.get(n) != a["rows"].get(n):
                    self.v(w, f"result of untouched job {n} changed: {a['rows'].get(n)} -> {rows.get(n)}", "untouched-result-changed")
            if got.get(n, 0) > 1 or len(rows.get(n, [])) > 1:
                self.v(w, f"job {n} has {len(rows.get(n, []))} rows / {got.get(n, 0)} entries after resubmission", "duplicate-entry")
            if got.get(n, 0) == 0 and n not in res.get("missing_jobs", []):
                self.v(w, f"job {n} has neither a result nor is it reported missing after resubmission", "unaccounted")


ORACLES["C13"] = C13


RE_STAGE = re.compile(r"output-stage(\d+)")


class C15(PropOracle):
    """Pipeline stages strictly in order, each exactly once; pipeline.json matches what happened."""

    prop = "C15"

    def __init__(self):
        self.inits = {}  # stage -> number of initialisations (config.json dumps)
        self.next_calls = {}  # stage_num argument -> count
        self.prev_pipeline = None
        self.stage_done_at = {}

    def digest(self):
        return repr((sorted(self.inits.items()), sorted(self.next_calls.items()), sorted(self.stage_done_at),
                     (self.prev_pipeline or {}).get("stage_num"), (self.prev_pipeline or {}).get("is_complete")))

    def _stage_complete(self, w, k):
        c = read_json(f"{w.root}/output-stage{k}/cluster_config.json")
        if c is None:
            # the file is being rewritten (renamed to .bk) or the rewrite failed (an injected EDQUOT): the flag that was
            # on disk before still counts - completion is never taken back
            return k in self.stage_done_at
        if c.get("is_complete"):
            self.stage_done_at.setdefault(k, True)
        return bool(c.get("is_complete"))

    def _require_previous_complete(self, w, k, what):
        for p in range(1, k):
            if not self._stage_complete(w, p):
                self.v(w, f"{what} of stage {k} while stage {p} is not complete", "stage-started-early")
        # ground truth of the scheduler, not only JADE's flag: no batch of an earlier stage is still waiting to start
        # or running its jobs (the node that completes a stage is past its jobs: it triggers the next stage itself)
        for b in w.sim.active_batches():
            m = RE_STAGE.search(b.config or b.script or "")
            if not m or int(m.group(1)) >= k:
                continue
            rows = disk_rows(w, root=f"{w.root}/output-stage{m.group(1)}")
            pending = sorted(str(j) for j in (b.jobs or []) if str(j) not in rows)
            if pending:
                self.v(w, f"{what} of stage {k} while batch {b.name} of stage {m.group(1)} is still {b.state} in the scheduler and its jobs {pending} have no recorded result yet",
                       "stage-started-while-batch-active")

    def on_sbatch(self, w, vp, d):
        m = RE_STAGE.search(d.get("config") or d.get("script") or "")
        if m:
            self._require_previous_complete(w, int(m.group(1)), f"sbatch {d.get('name')}")

    def on_launch(self, w, vp, d):
        m = RE_STAGE.search(d["env"].get("JADE_RUNTIME_OUTPUT", ""))
        if m:
            self._require_previous_complete(w, int(m.group(1)), f"launch of job {d['job']}")

    def on_fwrite(self, w, vp, d):
        m = re.match(r"output-stage(\d+)/config\.json$", d["rel"])
        if m:
            k = int(m.group(1))
            self.inits[k] = self.inits.get(k, 0) + 1
            if self.inits[k] > 1:
                self.v(w, f"stage {k} configured/submitted {self.inits[k]} times", "stage-submitted-twice")
            self._require_previous_complete(w, k, "configuration")

    def on_nested_start(self, w, vp, d):
        argv = d["argv"]
        if argv[1:3] == ["pipeline", "submit-next-stage"]:
            k = next((int(a.split("=")[1]) for a in argv if a.startswith("--stage-num=")), None)
            if vp.name == "dup":
                return  # the scenario's own duplicated trigger
            self.next_calls[k] = self.next_calls.get(k, 0) + 1
            if self.next_calls[k] > 1:
                self.v(w, f"submit-next-stage --stage-num={k} invoked {self.next_calls[k]} times", "next-stage-twice")
            if k is not None and not self._stage_complete(w, k - 1):
                self.v(w, f"submit-next-stage --stage-num={k} invoked before stage {k - 1} was marked complete", "next-stage-early")

    def on_transition(self, w, vp, d):
        for rel in w.written:
            m = re.match(r"output-stage(\d+)/cluster_config\.json$", rel)
            if m:
                self._stage_complete(w, int(m.group(1)))
        if "pipeline.json" not in w.written:
            return
        p = read_json(w.rootp + "pipeline.json")
        if p is None:
            return
        n = len(p["stages"])
        prev = self.prev_pipeline
        if prev is not None:
            if p["stage_num"] < prev["stage_num"]:
                self.v(w, f"pipeline stage_num went back {prev['stage_num']} -> {p['stage_num']}", "stage-num-regress")
            if p["stage_num"] > prev["stage_num"] + 1:
                self.v(w, f"pipeline stage_num jumped {prev['stage_num']} -> {p['stage_num']}", "stage-num-jump")
            if prev.get("is_complete") and not p.get("is_complete"):
                self.v(w, "pipeline is_complete reverted", "pipeline-complete-reverted")
        for k in range(1, min(p["stage_num"], n + 1)):
            if not self._stage_complete(w, k):
                self.v(w, f"pipeline.json says current stage is {p['stage_num']} but stage {k} is not complete", "stage-num-ahead")
        if p.get("is_complete"):
            for k in range(1, n + 1):
                if not self._stage_complete(w, k):
                    self.v(w, f"pipeline marked complete while stage {k} is not complete", "pipeline-complete-early")
        self.prev_pipeline = p

    def on_end(self, w, vp, d):
        if w.data.get("faulty"):
            return
        p = read_json(w.rootp + "pipeline.json")
        if p is None:
            self.v(w, "no pipeline.json", "no-pipeline-json")
            return
        n = len(w.scen["stages"])
        if not p.get("is_complete") or p.get("stage_num") != n + 1:
            self.v(w, f"pipeline did not complete: stage_num={p.get('stage_num')} is_complete={p.get('is_complete')} "
                      f"(stages complete: {[self._stage_complete(w, k) for k in range(1, n + 1)]})", "pipeline-incomplete")
            return
        for k in range(1, n + 1):
            if self.inits.get(k, 0) != 1:
                self.v(w, f"stage {k} was configured {self.inits.get(k, 0)} times", "stage-init-count")
            res = read_json(f"{w.root}/output-stage{k}/results.json") or {}
            names = {j["name"] for j in w.scen["stages"][k - 1]["jobs"]}
            # what happened: the rows recorded on disk for the stage (a job without a row is missing)
            rows = disk_rows(w, root=f"{w.root}/output-stage{k}")
            truly_missing = sorted(n_ for n_ in names if n_ not in rows)
            want = 1 if truly_missing else 0
            got = p["stages"][k - 1].get("return_code")
            if got != want:
                self.v(w, f"pipeline.json records return_code {got} for stage {k}, the stage ended with {want} "
                          f"(jobs without a recorded result: {truly_missing}; results.json missing_jobs: {res.get('missing_jobs')})", "stage-return-code")
            have = {r["name"] for r in res.get("results", [])}
            if names != have | set(res.get("missing_jobs", [])):
                self.v(w, f"stage {k} results list {sorted(have)} for jobs {sorted(names)}", "stage-results")
            if sorted(res.get("missing_jobs", [])) != truly_missing:
                self.v(w, f"stage {k}: results.json reports missing jobs {sorted(res.get('missing_jobs', []))}, jobs without a recorded result are {truly_missing}", "stage-missing-jobs")
        for k in range(2, n + 2):
            if self.next_calls.get(k, 0) != 1:
                self.v(w, f"submit-next-stage --stage-num={k} invoked {self.next_calls.get(k, 0)} times", "next-stage-count")


ORACLES["C15"] = C15


class C12(PropOracle):
    """Every job accounted for when batches fail to submit / nodes are lost / dependency cycles."""

    prop = "C12"

    def __init__(self):
        self.unrecorded = {}  # node -> jobs whose process ended and whose append may still be under way
        self.must_have = set()  # jobs that ended and whose node has since gone on to its next launch / poll / exit

    def digest(self):
        return repr((sorted((k, sorted(v)) for k, v in self.unrecorded.items() if v), sorted(self.must_have), sorted(getattr(self, "round0", {}).items())))

    def on_job_exit(self, w, vp, d):
        self.unrecorded.setdefault(vp.name, set()).add(d["job"])

    # "the submission still reaches completion after the documented try-submit-jobs": ONE idle recovery round (nothing
    # queued or running, nobody else at work) hands over a batch or completes - also after lost nodes and refused batches
    def on_actor_round(self, w, vp, d):
        if vp.name.startswith("rec"):
            self.round0 = getattr(self, "round0", {})
            self.round0[vp.name] = (len(w.obs.sbatch_log), w.obs.completions)

    def on_actor_round_end(self, w, vp, d):
        r0 = getattr(self, "round0", {}).pop(vp.name, None)
        if r0 is None or not vp.name.startswith("rec"):
            return
        o = w.obs
        if any(str(f[2]) not in ("kill", "fail", "fail-all") for f in (w.data.get("faults") or [])):
            return
        attempted = o.sbatch_log[r0[0]:]
        c = read_json(w.rootp + "cluster_config.json") or {}
        if not attempted and o.completions == r0[1] and not c.get("is_complete"):
            busy = any(v.status == "ready" and v is not vp and v.pending is not None and v.pending.kind != "start" for v in w.vprocs)
            left = [h for v in w.vprocs if v.status == "dead" for h in v.holding]
            if (c.get("submitter") is not None and busy) or left or w.obs.lock_timeouts:
                return  # refused by a live submitter / a lock left behind by a killed process (D10, known finding)
            self.v(w, f"recovery round {d.get('n')} of {vp.name} (exit {d.get('code')}) on an idle, incomplete submission neither handed over a batch nor completed it "
                      f"(faults so far: {w.data.get('faults')})", "recovery-round-no-progress")

    def on_transition(self, w, vp, d):
        s_ = self.unrecorded.get(vp.name)
        if s_ and vp.status == "ready" and vp.pending is not None and vp.pending.kind in ("poll", "launch", "exit"):
            # the node is past the point where it records the results of the jobs that just ended
            self.must_have |= s_
            s_.clear()

    def on_launch(self, w, vp, d):
        # a job that waits for a job without an outcome is never started
        rec = w.obs.launch_log[-1]
        by = {j["name"]: j for j in w.scen["jobs"]}
        j = by.get(d["job"])
        if j is None:
            return
        miss = sorted(b for b in j["blocked_by"] if b not in rec["rows"])
        if miss:
            self.v(w, f"job {d['job']} started although its blockers {miss} have no outcome", "started-despite-missing-blocker")
        if w.obs.launch.get(d["job"], 0) > 1:
            self.v(w, f"job {d['job']} started {w.obs.launch[d['job']]} times", "double-launch")

    def on_end(self, w, vp, d):
        o = w.obs
        c = o.cluster or {}
        if not c:
            return
        if not c.get("is_complete"):
            rec = [v for v in w.vprocs if v.name.startswith("rec")]
            left = [v.name + ":" + (w.rel(h) or h) for v in w.vprocs if v.status == "dead" for h in v.holding]
            if rec and any(".csv.lock" in x for x in left):
                # a node died inside the critical section of its results file: the soft lock stays for ever
                self.v(w, f"submission cannot complete: results lock left behind by a killed node ({left}); every later try-submit-jobs "
                          f"times out on it (lock timeouts: {o.lock_timeouts[:2]})", "no-completion-results-lock-left")
            elif rec and not any((w.rootp + "cluster_config.json.lock") == h for v in w.vprocs for h in v.holding) \
                    and not os.path.exists(w.rootp + "cluster_config.json.lock") and not o.lock_timeouts:
                self.v(w, f"submission did not reach completion after the recovery rounds (faults: {w.data.get('faults')})", "no-completion")
            return
        res = read_json(w.rootp + "results.json")
        if res is None:
            self.v(w, "complete without results.json", "no-results")
            return
        rows = disk_rows(w)
        got = {}
        for r in res.get("results", []):
            if r["name"] in got:
                self.v(w, f"job {r['name']} listed twice in the final results", "duplicate-entry")
            got[r["name"]] = (str(r["return_code"]), r["status"])
        missing = list(res.get("missing_jobs", []))
        by = {j["name"]: j for j in w.scen["jobs"]}
        for n, j in by.items():
            rr = rows.get(n, [])
            if rr:
                if n not in got:
                    self.v(w, f"job {n} has a recorded result {rr} but is not in the final results (missing_jobs={missing})", "result-dropped")
                    continue
                if (rr[0][0], rr[0][1]) != got[n]:
                    self.v(w, f"final result of {n} {got[n]} differs from the recorded row {rr[0][:2]}", "result-altered")
                if n in missing:
                    self.v(w, f"job {n} is reported missing although it has a result", "missing-with-result")
                # no fabricated row
                rc, st = rr[0][0], rr[0][1]
                if st == "finished":
                    if int(rc) not in o.exits.get(n, []):
                        self.v(w, f"job {n} has a 'finished' row with return code {rc} but its process delivered {o.exits.get(n)} "
                                  f"(launches: {o.launch.get(n, 0)})", "fabricated-result")
                elif st == "canceled":
                    if o.launch.get(n, 0):
                        self.v(w, f"job {n} has a canceled row but was started", "canceled-but-ran")
                    bad = [b for b in j["blocked_by"] if any(int(x[0]) != 0 for x in rows.get(b, []))]
                    if not j["cancel"] or not bad:
                        self.v(w, f"job {n} was given a canceled result without a failed blocker (flag={j['cancel']}, blockers={j['blocked_by']})", "fabricated-cancel")
                else:
                    self.v(w, f"job {n} has a row with status {st}", "bad-status")
            else:
                if n in self.must_have:
                    self.v(w, f"job {n} finished (exit {o.exits.get(n)}) and its node went on to its next launch/poll, yet no result row of it exists: "
                              f"a job that did finish lost its result", "finished-job-result-lost")
                if n in got:
                    self.v(w, f"final results contain {n}: {got[n]} but no row was ever recorded for it", "fabricated-result")
                if n not in missing:
                    self.v(w, f"job {n} has no result and is not reported missing (missing_jobs={missing})", "silently-dropped")
        extra = [m for m in missing if m not in by]
        if extra:
            self.v(w, f"missing_jobs lists unknown jobs {extra}", "unknown-missing")
        if len(missing) != len(set(missing)):
            self.v(w, f"missing_jobs lists a job twice: {missing}", "duplicate-missing")
        s = res.get("results_summary", {})
        if s.get("num_missing") != len(missing):
            self.v(w, f"summary num_missing={s.get('num_missing')} but {len(missing)} jobs are missing", "missing-count")


ORACLES["C12"] = C12


class C11(PropOracle):
    """A submitter that dies or errors mid-round cannot cause double submission; results stay on
    disk; later invocations continue consistently or refuse."""

    prop = "C11"

    def __init__(self):
        self.c01 = C01()
        self.c01.prop = "C11"
        self.c02 = C02()
        self.c02.prop = "C11"
        self.c09 = C09()
        self.c09.prop = "C11"
        self.ever = {}  # job -> set of (rc, status) ever seen on disk
        self.round0 = {}

    def digest(self):
        return repr(sorted((str(k), sorted(map(str, v))) for k, v in self.ever.items())) + repr(sorted(self.round0.items()))

    def on_sbatch(self, w, vp, d):
        self.c01.on_sbatch(w, vp, d)

    def on_fwrite(self, w, vp, d):
        self.c01.on_fwrite(w, vp, d)

    def on_launch(self, w, vp, d):
        self.c01.on_launch(w, vp, d)
        self.c02.on_launch(w, vp, d)

    def _scan(self, w):
        for n, rr in disk_rows(w).items():
            s = self.ever.setdefault(n, set())
            for r in rr:
                s.add((r[0], r[1]))

    def on_transition(self, w, vp, d):
        if any(r.endswith(".csv") for r in w.written):
            self._scan(w)

    def on_actor_round(self, w, vp, d):
        self.round0[vp.name] = len(w.obs.sbatch_log)

    def on_actor_round_end(self, w, vp, d):
        # a later invocation that acted (handed a batch to the HPC) must leave a consistent status
        n0 = self.round0.pop(vp.name, None)
        if n0 is None:
            return
        if any(r["accepted"] for r in w.obs.sbatch_log[n0:]) and d["code"] == 0:
            self.c09.prev = None
            self.c09.observe(w, vp)

    def on_end(self, w, vp, d):
        rows = disk_rows(w)
        for n, seen in self.ever.items():
            have = {(r[0], r[1]) for r in rows.get(n, [])}
            lost = seen - have
            if lost:
                self.v(w, f"result {sorted(lost)} of job {n} was on disk earlier and is gone at the end (faults: {w.data.get('faults')})", "result-lost")
        c_ = w.obs.cluster or {}
        if c_.get("is_complete"):
            res_ = read_json(w.rootp + "results.json")
            names_ = {j["name"] for j in w.scen["jobs"]}
            if res_ is None:
                self.v(w, f"the submission is marked complete but there is no readable results.json (faults: {w.data.get('faults')}); "
                          "later invocations answer 'already finished'", "complete-without-summary")
            elif {r["name"] for r in res_.get("results", [])} | set(res_.get("missing_jobs", [])) != names_:
                self.v(w, f"the submission is marked complete but results.json accounts for "
                          f"{sorted({r['name'] for r in res_.get('results', [])} | set(res_.get('missing_jobs', [])))} of {sorted(names_)}", "complete-with-partial-summary")
        faults = w.data.get("faults") or []
        if faults and all(f[1].startswith("cmd:squeue") and f[2] == "fail-all" for f in faults):
            # a transient status-query failure: the run must end exactly as the fault-free one
            c = w.obs.cluster or {}
            if not c.get("is_complete"):
                self.v(w, f"after a failed status query ({faults}) the submission did not complete", "squeue-fault-no-completion")
            else:
                res = read_json(w.rootp + "results.json") or {}
                ref = reference(w.scen["jobs"], w.scen["exit_codes"])
                got = {r["name"]: classify(r["return_code"], r["status"]) for r in res.get("results", [])}
                if got != ref or res.get("missing_jobs"):
                    self.v(w, f"after a failed status query the results {got} / missing {res.get('missing_jobs')} differ from the fault-free outcome {ref}", "squeue-fault-outcome")


ORACLES["C11"] = C11


class C08S(PropOracle):
    """System-level half of C08: every row written by a runner process ends up exactly once in the
    consolidated file and is reported to exactly one submitter round (its job is marked done once)."""

    prop = "C08"

    def __init__(self):
        self.done_events = {}

    def digest(self):
        return repr(sorted(self.done_events.items()))

    def on_transition(self, w, vp, d):
        if "job_status.json" not in w.written:
            return
        s = w.obs.jobstatus or {}
        for j in s.get("jobs", []):
            if j["state"] == "done":
                self.done_events.setdefault(j["name"], vp.name)

    def on_end(self, w, vp, d):
        o = w.obs
        c = o.cluster or {}
        faults = w.data.get("faults") or []
        transient_only = bool(faults) and all(f[1].startswith("cmd:squeue") and f[2] == "fail-all" for f in faults)
        # a full disk at one write of the consolidated file kills that round; the rows it was moving must survive it
        edquot_only = bool(faults) and all(f[2] == "edquot" and "processed_results.csv" in str(f[1]) for f in faults)
        if w.data.get("faulty") and not transient_only and not edquot_only:
            return
        if not c.get("is_complete"):
            if transient_only:
                self.v(w, f"after a failed status query {faults} the collected results never reached a submitter round: submission incomplete at the end", "completion-not-reported")
            return
        rows = disk_rows(w)
        s = o.jobstatus or {}
        states = {j["name"]: j["state"] for j in s.get("jobs", [])}
        for j in w.scen["jobs"]:
            n = j["name"]
            rr = rows.get(n, [])
            wrote = len(o.exits.get(n, [])) > 0
            if len(rr) > 1:
                self.v(w, f"result of {n} is recorded {len(rr)} times: {rr}", "row-duplicated")
            if wrote and not rr:
                self.v(w, f"job {n} finished (exit {o.exits[n]}) but its row is nowhere on disk at completion", "row-lost")
            if rr and rr[0][2] != "processed_results.csv":
                self.v(w, f"row of {n} is still in {rr[0][2]} at completion (never collected)", "row-not-collected")
            if rr and states.get(n) != "done" and not edquot_only:
                # (a round that dies of a write error between collecting rows and recording them leaves collected rows
                # unreported; the property quantifies over schedules, C11 owns faults - only the row clauses apply then)
                self.v(w, f"job {n} has a result but no submitter round was told: state {states.get(n)} at completion", "completion-not-reported")
            if rr and wrote and rr[0][1] == "finished" and int(rr[0][0]) not in o.exits.get(n, []):
                self.v(w, f"row of {n} carries return code {rr[0][0]}, its process delivered {o.exits.get(n)}", "row-misattributed")
        if c.get("completed_jobs") != sum(1 for v in states.values() if v == "done") and not edquot_only:
            self.v(w, f"completed_jobs={c.get('completed_jobs')} but {sum(1 for v in states.values() if v == 'done')} jobs were reported done", "reported-count")
        for p in [w.rootp + "processed_results.csv"]:
            txt = read_rows(p)
            if txt is None:
                self.v(w, "consolidated results file unreadable at completion", "consolidated-unreadable")
            else:
                bad = [r for r in txt if len(r) != 6 or None in r or not str(r.get("return_code", "")).lstrip("-").isdigit()]
                if bad:
                    self.v(w, f"consolidated results file has malformed rows: {bad[:2]}", "consolidated-malformed")


ORACLES["C08S"] = C08S


class C10S(PropOracle):
    """System-level half of C10: the submitter field on disk is taken only when free and given up only
    by the process that took it."""

    prop = "C10"

    def __init__(self):
        self.holder = None
        self.disk = None

    def digest(self):
        return repr((self.holder, self.disk))

    def on_transition(self, w, vp, d):
        if "cluster_config.json" not in w.written:
            return
        c = read_json(w.rootp + "cluster_config.json")
        if c is None:
            return
        new = c.get("submitter")
        old = self.disk
        self.disk = new
        if new == old:
            return
        who = vp.name
        if old is None and new is not None:
            if self.holder is not None and self.holder != who:
                self.v(w, f"{who} became submitter ({new}) while {self.holder} holds the role", "two-submitters")
            self.holder = who
        elif old is not None and new is None:
            if self.holder is not None and self.holder != who and not w.data.get("faulty"):
                self.v(w, f"{who} cleared the submitter role held by {self.holder} ({old})", "role-cleared-by-other")
            self.holder = None
        else:
            self.v(w, f"{who} replaced submitter {old} by {new} without a demotion in between", "role-replaced")
            self.holder = who


    def on_vend(self, w, vp, d):
        # a process that holds the role loads the state under the lock when it is promoted; nobody else may change the
        # state while it holds the role, so its own writes can never be out of date (fault-free runs)
        exc = str(d.get("exc") or "")
        if d.get("crashed") and "VersionMismatch" in exc and not w.data.get("faulty") and self.holder == vp.name:
            self.v(w, f"{vp.name} holds the submitter role and its write was rejected ({exc[:120]}): a process that is not the submitter changed the cluster state",
                   "submitter-write-rejected")

    def on_nested_crash(self, w, vp, d):
        # the same for a node's own try-submit-jobs (run inline by the node process)
        e = d.get("exc")
        if e is not None and "VersionMismatch" in type(e).__name__ and not w.data.get("faulty") and self.holder == vp.name:
            self.v(w, f"{vp.name} holds the submitter role and its write was rejected ({type(e).__name__}): a process that is not the submitter changed the cluster state",
                   "submitter-write-rejected")

    def on_fremove(self, w, vp, d):
        # JADE never deletes a soft-lock marker itself (release is the lock library's business): a process that removes
        # the cluster lock while another live process is inside the critical section has broken mutual exclusion
        rel = d["rel"]
        if not rel.endswith("cluster_config.json.lock"):
            return
        owner = w.sim.marker_owner.get(w.rootp + rel)
        if owner is not None and owner is not vp and owner.status == "ready":
            self.v(w, f"{vp.name} removed {rel} while {owner.name} holds the cluster lock (inside its critical section)", "lock-removed-by-other")


ORACLES["C10S"] = C10S


class C20S(PropOracle):
    """System-level half of C20: every event logged by a job's own process (job-outputs/<job>/events.log, moved into the
    node's event log when its batch ends) is in the consolidated event logs exactly once when the submission is complete."""

    prop = "C20"

    def on_end(self, w, vp, d):
        if w.data.get("faulty") or not (w.obs.cluster or {}).get("is_complete"):
            return
        written = w.data.get("job_events_written") or []
        if not written:
            return
        import glob as _glob

        found = {}
        for p in sorted(_glob.glob(w.rootp + "*events.log")):
            try:
                with open(p) as f:
                    for line in f:
                        line = line.strip()
                        if not line:
                            continue
                        try:
                            r = json.loads(line)
                        except ValueError:
                            self.v(w, f"{os.path.basename(p)} holds an unparsable event line {line[:80]!r}", "event-line-unparsable")
                            continue
                        if r.get("name") == "job_evt":
                            k = (r.get("source"), r.get("message"))
                            found[k] = found.get(k, 0) + 1
            except OSError:
                pass
        for k in written:
            c = found.get(k, 0)
            if c != 1:
                self.v(w, f"event {k[1]!r} logged by the process of job {k[0]} is {c} times in the node event logs that the summary is built from "
                          f"(found: {sorted(found.items())})", "job-event-lost-or-duplicated")
        extra = [k for k in found if k not in set(written)]
        if extra:
            self.v(w, f"event logs hold job events nobody wrote: {extra}", "job-event-fabricated")


ORACLES["C20S"] = C20S


class C03R(PropOracle):
    """After a resubmission of everything that did not succeed (flags failed+missing, reruns succeed) the
    completed results again hold exactly one successful entry per job; reruns happen once, in dependency order."""

    prop = "C03"

    def on_launch(self, w, vp, d):
        o = w.obs
        if o.epoch >= 1 and o.launch.get(d["job"], 0) > 1:
            self.v(w, f"job {d['job']} started {o.launch[d['job']]} times in one resubmission", "rerun-twice")

    def on_end(self, w, vp, d):
        o = w.obs
        c = o.cluster or {}
        if w.data.get("faulty"):
            return
        if o.epoch < 1:
            if any(r for r in (read_json(w.rootp + "results.json") or {}).get("results", []) if r["return_code"] != 0):
                self.v(w, "the resubmission never started although jobs failed", "resubmission-missing")
            return
        if not c.get("is_complete"):
            self.v(w, f"resubmission did not complete (submitter={c.get('submitter')})", "resubmission-incomplete")
            return
        res = read_json(w.rootp + "results.json") or {}
        got = {}
        for r in res.get("results", []):
            got.setdefault(r["name"], []).append(classify(r["return_code"], r["status"]))
        # everything that did not succeed was rerun (flags failed+missing), so the final outcome is the reference
        # evaluation of the whole graph with the exit codes of the second run
        codes1, codes2 = {}, {}
        for n, c_ in w.scen["exit_codes"].items():
            codes1[n] = c_[0] if isinstance(c_, (list, tuple)) else c_
            codes2[n] = c_[min(1, len(c_) - 1)] if isinstance(c_, (list, tuple)) else c_
        ref1 = reference(w.scen["jobs"], codes1)
        rerun = dependents_closure(w.scen["jobs"], {n for n, k in ref1.items() if k != "successful"})
        # jobs that are not rerun keep their (successful) result; rerun jobs are evaluated with the second run's codes
        ref = reference(w.scen["jobs"], {n: (codes2.get(n, 0) if n in rerun else 0) for n in ref1})
        for j in w.scen["jobs"]:
            n = j["name"]
            if got.get(n) != [ref[n]]:
                self.v(w, f"after the resubmission job {n} has entries {got.get(n)} (missing_jobs={res.get('missing_jobs')}), expected one '{ref[n]}' entry",
                       "resubmission-result")
            ln = o.launch.get(n, 0)
            if n not in rerun and ln and not w.scen.get("refuse_scripts"):
                self.v(w, f"job {n} succeeded in the first run and depends on nothing that is rerun, but was started again", "resubmission-unselected-job-ran")
            if ref[n] == "canceled" and ln:
                self.v(w, f"job {n} must be canceled in the resubmitted run (a blocker failed again) but was started", "resubmission-canceled-job-ran")
        summ = res.get("results_summary", {})
        want = {k: sum(1 for v in ref.values() if v == k) for k in ("successful", "failed", "canceled")}
        if (summ.get("num_successful"), summ.get("num_failed"), summ.get("num_canceled"), summ.get("num_missing")) != (
                want["successful"], want["failed"], want["canceled"], 0):
            self.v(w, f"results_summary after the resubmission: {summ}, expected {want} and no missing jobs", "resubmission-tallies")


class C04R(C03R):
    prop = "C04"


class C20R(C03R):
    prop = "C20"


ORACLES.update({c.__name__: c for c in (C03R, C04R, C20R)})


class C18S(PropOracle):
    """System-level half of C18: a batch that is pending or running in the scheduler is never treated as
    finished, i.e. it is still listed as active when a submitter round ends."""

    prop = "C18"

    def __init__(self):
        self.in_round = set()

    def digest(self):
        return repr(sorted(self.in_round))

    def on_vstart(self, w, vp, d):
        if vp.kind == "login":
            self.in_round.add(vp.name)

    def on_cmd(self, w, vp, d):
        if d["prog"] in ("squeue", "sbatch"):
            self.in_round.add(vp.name)

    def on_transition(self, w, vp, d):
        if "cluster_config.json" not in w.written:
            return
        if w.data.get("faulty") and not all(f[2] in ("fail", "fail-all") and "squeue" in str(f[1]) for f in (w.data.get("faults") or [])):
            return  # (a failing status query is part of the property's quantifier; other faults are C11's business)
        c, s = w.obs.cluster, w.obs.jobstatus
        if not c or not s or c.get("submitter") is not None or vp.name not in self.in_round:
            return
        self.in_round.discard(vp.name)
        if os.path.exists(w.rootp + "cluster_config.json.lock") or c.get("is_canceled"):
            return
        ids = set(s.get("hpc_job_ids", []))
        for b in w.sim.active_batches():
            if b.id not in ids and not c.get("is_complete"):
                self.v(w, f"round of {vp.name} ended with batch {b.id} ({b.state} in the scheduler, jobs {b.jobs}) no longer listed as active "
                          f"(hpc_job_ids={sorted(ids)})", "active-batch-forgotten")
            if b.id not in ids and c.get("is_complete"):
                self.v(w, f"submission completed by {vp.name} while batch {b.id} is {b.state} in the scheduler", "completed-with-active-batch")


ORACLES["C18S"] = C18S
