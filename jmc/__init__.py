"""jmc - explicit-state / stateless model checker that explores the real NREL/jade code.

See /verif/DESIGN.md.  Import order matters: `jmc.boot` must be imported first in a fresh
interpreter (it fixes sys.path so that `jade` is imported from /repo's working tree and
installs the interception layer).
"""
