"""Entry point: ./check <Cxx> [--tier quick|thorough] [--replay FILE] [--selftest]"""

import argparse
import os
import sys


def main():
    ap = argparse.ArgumentParser()
    ap.add_argument("prop")
    ap.add_argument("--tier", default=os.environ.get("VERIF_TIER", "quick"), choices=["quick", "thorough"])
    ap.add_argument("--replay")
    a = ap.parse_args()
    from . import boot  # noqa: F401  (bootstraps jade from /repo, installs interception)
    from . import checks
    from . import scen

    scen.new_run_base()

    if a.prop == "setup":
        code = checks.setup()
        scen.cleanup_run_base()
        sys.exit(code)
    if a.prop == "selftest":
        code = checks.selftest()
        scen.cleanup_run_base()
        sys.exit(code)
    if a.replay:
        code = checks.replay(a.prop, a.replay)
        scen.cleanup_run_base()
        sys.exit(code)
    fn = checks.CHECKS.get(a.prop)
    if fn is None:
        print(f"unknown property {a.prop}")
        sys.exit(2)
    try:
        code = fn(a.tier)
    except Exception:
        import traceback

        boot.unmute_stdio()
        print("HARNESS-ERROR " + traceback.format_exc())
        code = 2
    sys.stdout.flush()
    scen.cleanup_run_base()
    os._exit(code)


if __name__ == "__main__":
    main()
